package main

// Family kv: sequential multi-collection, multi-handle histories over every KV / xattr / subdoc
// entry point, with a scripted HLC clock, a live feed per collection and a full read-back after
// every step.  Model: coq/Store.v (srun).

import (
	"runtime"
	"encoding/json"
	"errors"
	"fmt"
	"os"
	"path/filepath"
	"sort"
	"strconv"
	"strings"
	"sync"
	"sync/atomic"
	"time"

	sgbucket "github.com/couchbase/sg-bucket"
	"github.com/couchbaselabs/rosmar"
)

type XKV struct {
	Name string  `json:"n"`
	Val  *string `json:"v"` // nil: nil value
}

type Macro struct {
	Path string `json:"path"`
	Kind string `json:"kind"` // cas | crc
}

type Callback struct {
	Kind   string    `json:"kind"` // Update: cancel|fail|set|append|delete|exponly ; WU: fail|result
	Val    *string   `json:"val,omitempty"`
	NewExp *uint32   `json:"newexp,omitempty"`
	Xs     []XKV     `json:"xs,omitempty"`
	Dels   *[]string `json:"dels,omitempty"`
	Tomb   bool      `json:"tomb,omitempty"`
	Spec   []Macro   `json:"spec,omitempty"`
}

type KOp struct {
	Kind       string    `json:"kind"`
	Exp        uint32    `json:"exp,omitempty"`
	CasMode    string    `json:"casmode,omitempty"` // zero|current|stale|bogus
	Val        *string   `json:"val,omitempty"`
	Raw        bool      `json:"raw,omitempty"`
	Append     bool      `json:"append,omitempty"`
	AddOnly    bool      `json:"addonly,omitempty"`
	Preserve   bool      `json:"preserve,omitempty"`
	Amt        uint64    `json:"amt,omitempty"`
	Deflt      uint64    `json:"deflt,omitempty"`
	Names      []string  `json:"names,omitempty"`
	Xs         []XKV     `json:"xs,omitempty"`
	Dels       *[]string `json:"dels,omitempty"`
	DeleteBody bool      `json:"delete_body,omitempty"`
	Macros     []Macro   `json:"macros,omitempty"`
	Path       string    `json:"path,omitempty"`
	Name       string    `json:"name,omitempty"`
	Cb         *Callback `json:"cb,omitempty"`
	NewCas     uint64    `json:"newcas,omitempty"`
	NewCasCur  bool      `json:"newcas_cur,omitempty"` // WithMeta: the new CAS is the one the document has now (if it has one)
	XObj       *[]XKV    `json:"xobj,omitempty"` // WithMeta xattrs (nil: no xattrs)
	IsJSON     bool      `json:"isjson,omitempty"`
}

type Step struct {
	Kind   string `json:"kind"` // kv | purge | create | drop | expire
	Coll   string `json:"coll,omitempty"`
	Key    string `json:"key,omitempty"`
	Handle int    `json:"handle,omitempty"`
	Op     *KOp   `json:"op,omitempty"`
	Clock  uint64 `json:"clock"`
	DDoc   string `json:"ddoc,omitempty"`  // putddoc / delddoc / view
	Views  []ViewDef `json:"views,omitempty"` // putddoc
	View   string `json:"view,omitempty"`  // view
	VP     *ViewParams `json:"vp,omitempty"`
	Q      string `json:"q,omitempty"`     // query: template name
	Arg    string `json:"arg,omitempty"`   // query: argument
	Start  string `json:"start,omitempty"` // dump: zero|current|stale|bogus  (CAS of Key in Coll)
	Plus   uint64 `json:"plus,omitempty"`  // dump: added to the resolved start CAS
	KeysOnly bool `json:"keysonly,omitempty"` // dump: a KeysOnly feed
	ViaBucket bool `json:"via_bucket,omitempty"` // dump: through Bucket.StartDCPFeed with Scopes naming every collection; the collection's share is kept
	Fresh  bool   `json:"fresh,omitempty"`    // purge, drop: through a handle opened for the purpose, which has opened no collection
	CreateOrOpen bool `json:"create_or_open,omitempty"` // reopen: with CreateOrOpen instead of ReOpenExisting
	Nested *KOp   `json:"nested,omitempty"` // kv (Update, WriteUpdateWithXattrs, WriteSubDoc, SubdocInsert): another call on the same key,
	// made through another handle inside the window between the call's read and its compare-and-swap write
	WinColl string `json:"wincoll,omitempty"` // expire: the sweep is held between its query of this collection and its removals (hook expiry.window) ...
	Win    []Step `json:"win,omitempty"`     // ... while these calls are made
}

type ViewDef struct {
	Name string `json:"name"`
	Map  int    `json:"map"` // index into mapSources
}

type ViewParams struct {
	Stale        bool    `json:"stale,omitempty"`
	Descending   bool    `json:"descending,omitempty"`
	Limit        int     `json:"limit,omitempty"`
	StartKey     *string `json:"startkey,omitempty"` // JSON text
	EndKey       *string `json:"endkey,omitempty"`
	ExclusiveEnd bool    `json:"exclusive_end,omitempty"`
	Key          *string `json:"key,omitempty"`
	NoReduce     bool    `json:"no_reduce,omitempty"` // reduce=false
}

// the family of map functions (their Gallina twins: Store.mapfn)
const numMaps = 10 // map function ids: mapSources, then the same with a _count reduce

var mapSources = []string{
	`function(doc, meta) { if (doc !== null && typeof doc === "object" && typeof doc.a === "number") emit(doc.a, meta.id); }`,
	`function(doc, meta) { emit(meta.id, null); }`,
	`function(doc, meta) { if (meta.xattrs && meta.xattrs._sync !== undefined) emit(meta.id, meta.xattrs._sync); }`,
	`function(doc, meta) { if (doc !== null && typeof doc === "object" && typeof doc.a === "number") { emit([doc.a, 1], null); emit([doc.a, meta.id], null); emit([doc.a, 1], "dup"); } }`,
	`function(doc, meta) { if (doc !== null && typeof doc === "object" && typeof doc.s === "string") emit(doc.s, null); }`,
}

type sgbucketDesignDoc = sgbucket.DesignDoc

func mkDesignDoc(views []ViewDef) *sgbucket.DesignDoc {
	dd := sgbucket.DesignDoc{Language: "javascript", Views: sgbucket.ViewMap{}}
	for _, v := range views {
		// views 5..9 are views 0..4 with the reduce function _count
		vd := sgbucket.ViewDef{Map: mapSources[v.Map%len(mapSources)]}
		if v.Map >= len(mapSources) {
			vd.Reduce = "_count"
		}
		dd.Views[v.Name] = vd
	}
	return &dd
}

type kvInput struct {
	OnDisk  bool   `json:"on_disk"`
	Handles int    `json:"handles"`
	MaxDoc  int    `json:"maxdoc"`
	Ops     []Step `json:"ops"`
}

var kvColls = []string{"_default._default", "s1.c1", "s1.c2", "s2.c1"} // s2.c1: the name of s1.c1 in another scope
var kvKeys = []string{"k1", "k2", "k3"}
var kvXnames = []string{"_sync", "_vv", "u1", "u2"}

// ---------------------------------------------------------------------------------------------
// canonicalisation

func errClass(err error) string {
	var me sgbucket.MissingError
	var ce sgbucket.CasMismatchErr
	var xe sgbucket.XattrMissingError
	var te sgbucket.DocTooBigErr
	switch {
	case err == nil:
		return ""
	case errors.Is(err, rosmar.ErrBucketClosed):
		return "EClosed"
	case errors.As(err, &me):
		return "EMissing"
	case errors.As(err, &ce):
		return "ECasMismatch"
	case errors.As(err, &xe):
		return "EXattrMissing"
	case errors.As(err, &te):
		return "ETooBig"
	case errors.Is(err, sgbucket.ErrKeyExists):
		return "EKeyExists"
	case errors.Is(err, sgbucket.ErrPathNotFound):
		return "EPathNotFound"
	case errors.Is(err, sgbucket.ErrPathExists):
		return "EPathExists"
	case errors.Is(err, sgbucket.ErrPathMismatch):
		return "EPathMismatch"
	case errors.Is(err, sgbucket.ErrNeedXattrs):
		return "ENeedXattrs"
	case errors.Is(err, sgbucket.ErrNeedBody):
		return "ENeedBody"
	case errors.Is(err, sgbucket.ErrNilXattrValue):
		return "ENilXattr"
	case errors.Is(err, sgbucket.ErrDeleteXattrOnDocumentInsert):
		return "EDeleteXattrOnInsert"
	case errors.Is(err, sgbucket.ErrDeleteXattrOnTombstone):
		return "EDeleteXattrOnTombstone"
	case errors.Is(err, sgbucket.ErrUpsertAndDeleteSameXattr):
		return "EUpsertAndDelete"
	default:
		return "EOther"
	}
}

func rErr(err error) Term { return C("RErr", C(errClass(err))) }

func optBytes(b []byte) Term {
	if b == nil {
		return None()
	}
	return Some(S(string(b)))
}

func optStr(s *string) Term {
	if s == nil {
		return None()
	}
	return Some(S(*s))
}

func xattrPairs(m map[string][]byte) Term {
	names := make([]string, 0, len(m))
	for k := range m {
		names = append(names, k)
	}
	sort.Strings(names)
	items := make([]any, 0, len(names))
	for _, k := range names {
		items = append(items, P(S(k), S(string(m[k]))))
	}
	return L(items...)
}

func feventTerm(ev sgbucket.FeedEvent) Term {
	op := map[sgbucket.FeedOpcode]string{sgbucket.FeedOpBeginBackfill: "FBegin", sgbucket.FeedOpEndBackfill: "FEnd",
		sgbucket.FeedOpMutation: "FMutation", sgbucket.FeedOpDeletion: "FDeletion"}[ev.Opcode]
	body := ev.Value
	xattrs := map[string][]byte{}
	if ev.DataType&sgbucket.FeedDataTypeXattr != 0 {
		b, xs, err := sgbucket.DecodeValueWithAllXattrs(ev.Value)
		if err != nil {
			body = []byte("<<undecodable xattr value: " + err.Error() + ">>")
		} else {
			body, xattrs = b, xs
		}
	}
	return C("mkFevent", C(op), S(string(ev.Key)), S(string(body)), xattrPairs(xattrs),
		B(ev.DataType&sgbucket.FeedDataTypeJSON != 0), B(ev.DataType&sgbucket.FeedDataTypeXattr != 0),
		N(ev.Cas), N(uint64(ev.Expiry)), N(ev.RevNo), N(uint64(ev.CollectionID)))
}

// ---------------------------------------------------------------------------------------------
// executor

type liveFeed struct {
	mu     sync.Mutex
	events []sgbucket.FeedEvent
	term   chan bool
	done   chan struct{}
}

type kvRun struct {
	in       kvInput
	dir      string
	name     string
	handles  []*rosmar.Bucket
	clock    uint64
	feeds    map[string]*liveFeed // by collection name
	posted   int64                // events posted to collections (hook)
	lastCas  map[string][]uint64  // (coll/key) -> CAS history observed
	class    map[string]string    // (coll/key) -> pre-state class from the last read-back
	cells    map[string]bool
	notes    []string
	received int
	manualExpiry int64 // the goroutine that is running the timer's callback on the history's behalf (0: none)
	url      string
	win      *windowRun
	fullDefault []sgbucket.FeedEvent // every event the full live feed of the default collection received
	curCas   map[string]uint64 // (coll/key) -> CAS at the last read-back (0: no row)
	curXs    map[string]map[string]string // (coll/key) -> xattrs at the last read-back
	lostUpdate string          // an optimistic write accepted on top of a version its callback was never shown
	sweep    *sweepRun         // an expiry sweep held in its window (nil: none)
	fakeNext *uint64           // while a sweep is held the expiry manager is locked and cannot be read: what has been asked of it
	winG     int64             // the goroutine making a call inside the sweep's window
	winCommitted int32         // that call has committed a transaction
	lastDrained []sgbucket.FeedEvent // the events the last collectLive returned
}

// An expiry sweep held between its query of one collection and its removals.
type sweepRun struct {
	gid     int64
	idx     int // which collection's window, in the order of ListDataStores
	seen    int
	keys    []string
	open    chan struct{}
	release chan struct{}
}

// scheduleExpirationAtOrBefore, as the model has it (Store.sched)
func schedNext(next, e uint64) uint64 {
	if e == 0 {
		return next
	}
	if next == 0 || e < next {
		return e
	}
	return next
}

// A call made inside another call's read-to-write window.  The enclosing call is a compare-and-swap loop,
// so the model of the pair is sequential: the nested call, then one SDraw step per failed attempt of the
// loop (each consumed a timestamp), then the enclosing call.
type windowRun struct {
	step     Step
	attempts int
	begins   int // transactions begun by the enclosing call (one per write attempt, each draws a timestamp)
	fired    bool
	busy     bool
	opT      Term
	respT    Term
	live     []any
	snap     Term
	err      error
}

func windowed(kind string) bool {
	return kind == "Update" || kind == "WriteUpdateWithXattrs" || kind == "WriteSubDoc" || kind == "SubdocInsert"
}

// The pair (nested call, enclosing call) has one sequential reading only when the enclosing call either
// retries after losing the race (cas 0 / Update) or cannot lose it (the nested call leaves the CAS alone):
// with an explicit CAS, or a callback result validated against the version it was shown, the call fails
// without a retry and with an error that depends on where the race was lost.
func windowOK(st Step, live ...string) bool {
	if st.Nested == nil || st.Op == nil || !windowed(st.Op.Kind) || st.Nested.Cb != nil {
		return false
	}
	if st.Nested.NewCasCur {
		// a WithMeta write that re-issues the CAS the document has: the enclosing loop cannot see that anything
		// changed (the caller chose to reuse a version number), so the pair has no sequential reading
		return false
	}
	touch := st.Nested.Kind == "Touch" || st.Nested.Kind == "GetAndTouchRaw"
	switch st.Op.Kind {
	case "WriteUpdateWithXattrs":
		// an xattr-only write to a live document changes its CAS and nothing the loop branches on: the loop's
		// conditional write is refused and it starts over with the new version
		if (st.Nested.Kind == "SetXattrs" || st.Nested.Kind == "DeleteSubDocPaths") && len(live) > 0 && strings.HasPrefix(live[0], "live") {
			return true
		}
		return touch
	case "WriteSubDoc", "SubdocInsert":
		return touch || st.Op.CasMode == "zero"
	}
	return true
}

// called at every pass through the window of the enclosing call
func (k *kvRun) windowPass() {
	w := k.win
	if w == nil || w.busy {
		return
	}
	w.attempts++
	if w.fired {
		return
	}
	w.fired, w.busy = true, true
	defer func() { w.busy = false }()
	kt, respT, err := k.doKv(w.step)
	if err != nil {
		w.err = err
		return
	}
	w.opT = C("SKv", S(w.step.Coll), S(w.step.Key), kt)
	w.respT = respT
	w.live = k.collectLive(atomic.LoadInt64(&k.posted))
	snap, err := k.snapshot()
	if err != nil {
		w.err = err
		return
	}
	w.snap = snap
}

func dsName(full string) sgbucket.DataStoreNameImpl {
	for i := 0; i < len(full); i++ {
		if full[i] == '.' {
			return sgbucket.DataStoreNameImpl{Scope: full[:i], Collection: full[i+1:]}
		}
	}
	return sgbucket.DataStoreNameImpl{Scope: "_default", Collection: full}
}

func (k *kvRun) existingColls() (map[string]bool, []string, error) {
	names, err := k.handles[0].ListDataStores()
	if err != nil {
		return nil, nil, err
	}
	m := map[string]bool{}
	var order []string
	for _, n := range names {
		s := n.ScopeName() + "." + n.CollectionName()
		m[s] = true
		order = append(order, s)
	}
	return m, order, nil
}

func (k *kvRun) coll(handle int, name string) (*rosmar.Collection, error) {
	ds, err := k.handles[handle].NamedDataStore(dsName(name))
	if err != nil {
		return nil, err
	}
	return ds.(*rosmar.Collection), nil
}

func (k *kvRun) startFeed(name string) error {
	c, err := k.coll(0, name)
	if err != nil {
		return err
	}
	lf := &liveFeed{term: make(chan bool), done: make(chan struct{})}
	k.feeds[name] = lf
	args := sgbucket.FeedArguments{ID: "live-" + name, Backfill: sgbucket.FeedNoBackfill, Terminator: lf.term, DoneChan: lf.done}
	return c.StartDCPFeed(ctxBg, args, func(ev sgbucket.FeedEvent) bool {
		lf.mu.Lock()
		lf.events = append(lf.events, ev)
		if name == "_default._default" {
			k.fullDefault = append(k.fullDefault, ev)
		}
		lf.mu.Unlock()
		return true
	}, nil)
}

func (k *kvRun) totalReceived() int {
	n := 0
	for _, lf := range k.feeds {
		lf.mu.Lock()
		n += len(lf.events)
		lf.mu.Unlock()
	}
	return n
}

// drain the live feeds: wait until everything posted so far has been delivered, then return the
// events delivered since the previous call, collection by collection in universe order
func (k *kvRun) collectLive(expectPosted int64) []any {
	deadline := time.Now().Add(3 * time.Second)
	for time.Now().Before(deadline) {
		if int64(k.received+k.totalReceived()) >= expectPosted {
			break
		}
		time.Sleep(200 * time.Microsecond)
	}
	// Each collection has its own feed; what one step posted to several collections (an expiry sweep) has no
	// order across them that a client could observe.  The lists are merged by the CAS at their heads - the order
	// in which the events were posted - each list keeping the order in which it was delivered.
	var lists [][]sgbucket.FeedEvent
	for _, name := range kvColls {
		lf := k.feeds[name]
		if lf == nil {
			continue
		}
		lf.mu.Lock()
		if len(lf.events) > 0 {
			lists = append(lists, lf.events)
		}
		k.received += len(lf.events)
		lf.events = nil
		lf.mu.Unlock()
	}
	var out []any
	k.lastDrained = k.lastDrained[:0]
	for {
		best := -1
		for i, l := range lists {
			if len(l) > 0 && (best < 0 || l[0].Cas < lists[best][0].Cas) {
				best = i
			}
		}
		if best < 0 {
			break
		}
		out = append(out, feventTerm(lists[best][0]))
		k.lastDrained = append(k.lastDrained, lists[best][0])
		lists[best] = lists[best][1:]
	}
	return out
}

func dumpFeed(c *rosmar.Collection) ([]sgbucket.FeedEvent, error) { return dumpFeedFrom(c, 0) }

func dumpFeedFrom(c *rosmar.Collection, start uint64) ([]sgbucket.FeedEvent, error) {
	return dumpFeedArgs(c, start, false)
}

func dumpFeedArgs(c *rosmar.Collection, start uint64, keysOnly bool) ([]sgbucket.FeedEvent, error) {
	var mu sync.Mutex
	var evs []sgbucket.FeedEvent
	done := make(chan struct{})
	args := sgbucket.FeedArguments{ID: "dump", Backfill: start, Dump: true, DoneChan: done, KeysOnly: keysOnly}
	err := c.StartDCPFeed(ctxBg, args, func(ev sgbucket.FeedEvent) bool {
		mu.Lock()
		evs = append(evs, ev)
		mu.Unlock()
		return true
	}, nil)
	if err != nil {
		return nil, err
	}
	select {
	case <-done:
	case <-time.After(5 * time.Second):
		return nil, fmt.Errorf("dump feed did not finish")
	}
	return evs, nil
}

// A dump of every collection of the bucket at once (Bucket.StartDCPFeed with Scopes); what it delivers for one
// collection, in the order it came, must be what a dump of that collection alone delivers.
func (k *kvRun) dumpViaBucket(c *rosmar.Collection, start uint64, keysOnly bool) ([]sgbucket.FeedEvent, error) {
	_, order, err := k.existingColls()
	if err != nil {
		return nil, err
	}
	scopes := map[string][]string{}
	for _, n := range order {
		ds := dsName(n)
		scopes[ds.ScopeName()] = append(scopes[ds.ScopeName()], ds.CollectionName())
	}
	want := c.GetCollectionID()
	var mu sync.Mutex
	var evs []sgbucket.FeedEvent
	done := make(chan struct{})
	args := sgbucket.FeedArguments{ID: "dump", Backfill: start, Dump: true, DoneChan: done, KeysOnly: keysOnly, Scopes: scopes}
	if err := k.handles[0].StartDCPFeed(ctxBg, args, func(ev sgbucket.FeedEvent) bool {
		mu.Lock()
		if ev.CollectionID == want {
			if ev.Opcode == sgbucket.FeedOpBeginBackfill || ev.Opcode == sgbucket.FeedOpEndBackfill {
				ev.CollectionID = 0 // the bucket-level wrapper labels the markers too; a collection's own feed does not
			}
			evs = append(evs, ev)
		}
		mu.Unlock()
		return true
	}, nil); err != nil {
		return nil, err
	}
	select {
	case <-done:
	case <-time.After(5 * time.Second):
		return nil, fmt.Errorf("bucket-level dump feed did not finish")
	}
	return evs, nil
}

func (k *kvRun) snapshot() (Term, error) {
	exist, order, err := k.existingColls()
	if err != nil {
		return nil, err
	}
	var collTerms, rowTerms, orderTerms []any
	for _, n := range order {
		collTerms = append(collTerms, S(n))
	}
	names := append(append([]string{}, kvXnames...), "$document", "$document.revid")
	for _, cn := range kvColls {
		if !exist[cn] {
			continue
		}
		c, err := k.coll(0, cn)
		if err != nil {
			return nil, err
		}
		evs, err := dumpFeed(c)
		if err != nil {
			return nil, err
		}
		byKey := map[string]sgbucket.FeedEvent{}
		var keyOrder []any
		inside := false
		for _, ev := range evs {
			switch ev.Opcode {
			case sgbucket.FeedOpBeginBackfill:
				inside = true
			case sgbucket.FeedOpEndBackfill:
				inside = false
			default:
				if inside {
					if _, dup := byKey[string(ev.Key)]; dup {
						k.notes = append(k.notes, "duplicate key in dump: "+string(ev.Key))
					}
					byKey[string(ev.Key)] = ev
					keyOrder = append(keyOrder, S(string(ev.Key)))
				} else {
					k.notes = append(k.notes, "dump event outside backfill markers")
				}
			}
		}
		orderTerms = append(orderTerms, P(S(cn), L(keyOrder...)))
		for _, key := range kvKeys {
			var get, exp, doc Term
			if v, cas, err := c.GetRaw(key); err != nil {
				get = rErr(err)
			} else {
				get = C("RVal", S(string(v)), N(cas))
			}
			if e, err := c.GetExpiry(ctxBg, key); err != nil {
				exp = rErr(err)
			} else {
				exp = C("RNum", N(uint64(e)))
			}
			if body, xs, cas, err := c.GetWithXattrs(ctxBg, key, names); err != nil {
				doc = rErr(err)
			} else {
				doc = C("RDoc", optBytes(body), xattrPairs(xs), N(cas))
			}
			ex, err := c.Exists(key)
			if err != nil {
				return nil, err
			}
			var dump Term = None()
			if k.curCas == nil {
				k.curCas = map[string]uint64{}
			}
			k.curCas[cn+"/"+key] = 0
			if ev, ok := byKey[key]; ok {
				k.curCas[cn+"/"+key] = ev.Cas
				dump = Some(feventTerm(ev))
				hk := cn + "/" + key
				h := k.lastCas[hk]
				if len(h) == 0 || h[len(h)-1] != ev.Cas {
					k.lastCas[hk] = append(h, ev.Cas)
				}
			}
			class := "absent"
			if ev, ok := byKey[key]; ok {
				_, xs, _, _ := c.GetWithXattrs(ctxBg, key, kvXnames)
				if k.curXs == nil {
					k.curXs = map[string]map[string]string{}
				}
				cx := map[string]string{}
				for n, v := range xs {
					cx[n] = string(v)
				}
				k.curXs[cn+"/"+key] = cx
				class = "live"
				if ev.Opcode == sgbucket.FeedOpDeletion {
					class = "tomb"
				}
				sys, usr := false, false
				for n := range xs {
					if len(n) > 0 && n[0] == '_' {
						sys = true
					} else {
						usr = true
					}
				}
				if sys {
					class += "+sys"
				}
				if usr {
					class += "+user"
				}
			}
			k.class[cn+"/"+key] = class
			rowTerms = append(rowTerms, P(P(S(cn), S(key)), C("mkObs", get, exp, doc, B(ex), dump)))
		}
	}
	return C("mkSnap", L(collTerms...), L(rowTerms...), L(orderTerms...), L(P(S("nextExp"), N(k.nextExp())))), nil
}

func (k *kvRun) nextExp() uint64 {
	if k.fakeNext != nil {
		return *k.fakeNext
	}
	return uint64(k.handles[0].VerifNextExp())
}

func (k *kvRun) resolveCas(mode, coll, key string) uint64 {
	h := k.lastCas[coll+"/"+key]
	switch mode {
	case "current":
		if len(h) > 0 {
			return h[len(h)-1]
		}
		return 0
	case "stale":
		if len(h) > 1 {
			return h[len(h)-2]
		}
		return 4242
	case "bogus":
		return 12345
	case "max": // never issued either: the largest 64-bit values and 2^63.  database/sql refuses a uint64 with the high
		// bit set as a statement parameter; only WriteCas passes the expected CAS to SQLite (Kv.do_writecas)
		return ^uint64(0)
	case "maxm1":
		return ^uint64(0) - 1
	case "big":
		return []uint64{1 << 63, 1<<63 - 1, 1 << 62}[(len(h)+len(key))%3]
	default:
		return 0
	}
}

func xsTerm(xs []XKV) Term {
	items := make([]any, 0, len(xs))
	for _, x := range xs {
		items = append(items, P(S(x.Name), optStr(x.Val)))
	}
	return L(items...)
}

func xsMap(xs []XKV) map[string][]byte {
	m := make(map[string][]byte, len(xs))
	for _, x := range xs {
		if x.Val == nil {
			m[x.Name] = nil
		} else {
			m[x.Name] = []byte(*x.Val)
		}
	}
	return m
}

func strsTerm(l []string) Term {
	items := make([]any, 0, len(l))
	for _, s := range l {
		items = append(items, S(s))
	}
	return L(items...)
}

func delsTerm(d *[]string) Term {
	if d == nil {
		return None()
	}
	return Some(strsTerm(*d))
}

func delsSlice(d *[]string) []string {
	if d == nil {
		return nil
	}
	if *d == nil {
		return []string{}
	}
	return *d
}

func macrosTerm(ms []Macro) Term {
	items := make([]any, 0, len(ms))
	for _, m := range ms {
		kind := "MCas"
		if m.Kind == "crc" {
			kind = "MCrc"
		}
		items = append(items, P(S(m.Path), C(kind)))
	}
	return L(items...)
}

func mutateOpts(preserve bool, ms []Macro) *sgbucket.MutateInOptions {
	o := &sgbucket.MutateInOptions{PreserveExpiry: preserve}
	for _, m := range ms {
		t := sgbucket.MacroCas
		if m.Kind == "crc" {
			t = sgbucket.MacroCrc32c
		}
		o.MacroExpansion = append(o.MacroExpansion, sgbucket.NewMacroExpansionSpec(m.Path, t))
	}
	return o
}

func optExpTerm(e *uint32) Term {
	if e == nil {
		return None()
	}
	return Some(N(uint64(*e)))
}

func valBytes(v *string) []byte {
	if v == nil {
		return nil
	}
	return []byte(*v)
}

func xcolTerm(x *[]XKV) Term {
	if x == nil {
		return C("XNull")
	}
	items := make([]any, 0, len(*x))
	for _, kv := range *x {
		items = append(items, P(S(kv.Name), S(*kv.Val)))
	}
	return C("XObj", L(items...))
}

func xcolBytes(x *[]XKV) []byte {
	if x == nil {
		return nil
	}
	s := "{"
	for i, kv := range *x {
		if i > 0 {
			s += ","
		}
		kb, _ := json.Marshal(kv.Name)
		s += string(kb) + ":" + *kv.Val
	}
	return []byte(s + "}")
}

var errPanic = errors.New("panic")

// a JSON text (integers, strings, arrays, objects, null, booleans) as a term of Json.json
func jsonTerm(text string) Term {
	var v any
	dec := json.NewDecoder(strings.NewReader(text))
	dec.UseNumber()
	if err := dec.Decode(&v); err != nil {
		panic("jsonTerm: " + err.Error())
	}
	var conv func(v any) Term
	conv = func(v any) Term {
		switch x := v.(type) {
		case nil:
			return C("JNull")
		case bool:
			return C("JBool", B(x))
		case json.Number:
			n, err := x.Int64()
			if err != nil {
				panic("jsonTerm: non-integer number")
			}
			if n < 0 {
				return C("JNum", B(true), N(uint64(-n)))
			}
			return C("JNum", B(false), N(uint64(n)))
		case string:
			return C("JStr", S(x))
		case []any:
			var items []any
			for _, e := range x {
				items = append(items, conv(e))
			}
			return C("JArr", L(items...))
		case map[string]any:
			names := make([]string, 0, len(x))
			for n := range x {
				names = append(names, n)
			}
			sort.Strings(names)
			var items []any
			for _, n := range names {
				items = append(items, P(S(n), conv(x[n])))
			}
			return C("JObj", L(items...))
		}
		panic("jsonTerm: unsupported")
	}
	return conv(v)
}

// the family of SQL statements of C19 (their semantics in the model: Store.eval_query)
func queryTemplate(name, arg string) (string, Term, map[string]any) {
	switch name {
	case "QIds":
		return "SELECT json_quote(id) AS id FROM $_keyspace ORDER BY id", C("QIds"), nil
	case "QBodies":
		return "SELECT json_quote(id) AS id, json_quote(hex(body)) AS hb FROM $_keyspace ORDER BY id", C("QBodies"), nil
	case "QCount":
		return "SELECT count(*) AS n FROM $_keyspace", C("QCount"), nil
	case "QIdEq":
		return "SELECT json_quote(id) AS id FROM $_keyspace WHERE id = $k", C("QIdEq", S(arg)), map[string]any{"k": arg}
	case "QBodyA1":
		return "SELECT json_quote(id) AS id FROM $_keyspace WHERE CASE WHEN json_valid(body) THEN body->>'$.a' END = 1 ORDER BY id", C("QBodyA1"), nil
	case "QXattrRev":
		return "SELECT json_quote(id) AS id FROM $_keyspace WHERE xattrs->>'$._sync.rev' = $v ORDER BY id", C("QXattrRev", S(arg)), map[string]any{"v": arg}
	case "QSync":
		return "SELECT json_quote(id) AS id, xattrs->'$._sync' AS s FROM $_keyspace ORDER BY id", C("QSync"), nil
	case "QBodyAEq":
		n, _ := strconv.ParseUint(arg, 10, 64)
		return "SELECT json_quote(id) AS id FROM $_keyspace WHERE CASE WHEN json_valid(body) THEN body->>'$.a' END = $n ORDER BY id", C("QBodyAEq", N(n)), map[string]any{"n": n}
	case "QUser":
		return "SELECT json_quote(id) AS id, xattrs->'$.u1' AS u FROM $_keyspace ORDER BY id", C("QUser"), nil
	case "QCross":
		return "SELECT json_quote(a.id || b.id || c.id || d.id) AS id FROM $_keyspace a, $_keyspace b, $_keyspace c, $_keyspace d ORDER BY a.id, b.id, c.id, d.id", C("QCross"), nil
	case "QLit":
		return "SELECT json_quote(id) AS id, json_quote('a  b') AS s FROM $_keyspace ORDER BY id", C("QLit"), nil
	case "QSyncFirst":
		return "SELECT xattrs->'$._sync' AS s, json_quote(id) AS id FROM $_keyspace ORDER BY id", C("QSyncFirst"), nil
	default:
		return "SELECT json_quote(id) AS id FROM $_keyspace ORDER BY id DESC LIMIT 2", C("QLast2"), nil
	}
}

// the parameters of a view query as rosmar takes them and as the model's vparams
func viewParams(vp *ViewParams) (map[string]any, Term) {
	params := map[string]any{}
	jsonT := func(p *string) Term {
		if p == nil {
			return None()
		}
		return Some(jsonTerm(*p))
	}
	setp := func(name string, p *string) {
		if p != nil {
			var v any
			_ = json.Unmarshal([]byte(*p), &v)
			params[name] = v
		}
	}
	if vp.Stale {
		params["stale"] = "ok"
	}
	if vp.Descending {
		params["descending"] = true
	}
	limT := None()
	if vp.Limit > 0 {
		params["limit"] = vp.Limit
		limT = Some(N(uint64(vp.Limit)))
	}
	setp("startkey", vp.StartKey)
	setp("endkey", vp.EndKey)
	setp("key", vp.Key)
	if vp.ExclusiveEnd {
		params["inclusive_end"] = false
	}
	if vp.NoReduce {
		params["reduce"] = false
	}
	return params, C("mkVparams", B(vp.Stale), B(vp.Descending), limT, jsonT(vp.StartKey), jsonT(vp.EndKey), B(!vp.ExclusiveEnd), jsonT(vp.Key), B(!vp.NoReduce))
}

// a nil value (Val absent) is passed as nil; the model names what it stands for (Kv.nil_raw / Kv.nil_json)
func valAny(v *string) any {
	if v == nil {
		return nil
	}
	return []byte(*v)
}
func valTerm(v *string, raw bool) Term {
	if v == nil {
		if raw {
			return C("nil_raw")
		}
		return C("nil_json")
	}
	return S(*v)
}

// execute one KV op; returns the Coq op term and the Coq response term
func (k *kvRun) doKv(st Step) (opT Term, respT Term, err error) {
	op := st.Op
	c, err := k.coll(st.Handle, st.Coll)
	if err != nil {
		return nil, nil, err
	}
	cas := k.resolveCas(op.CasMode, st.Coll, st.Key)
	key := st.Key
	defer func() {
		if r := recover(); r != nil {
			k.notes = append(k.notes, fmt.Sprintf("PANIC in %s: %v", op.Kind, r))
			respT = C("RErr", C("EOther"))
			if opT == nil {
				err = fmt.Errorf("panic before op term was built: %v", r)
			}
		}
	}()
	casResp := func(c uint64, e error) Term {
		if e != nil {
			return rErr(e)
		}
		return C("RCas", N(c))
	}
	okResp := func(e error) Term {
		if e != nil {
			return rErr(e)
		}
		return C("ROk")
	}
	switch op.Kind {
	case "GetRaw":
		opT = C("KGetRaw")
		v, cs, e := c.GetRaw(key)
		if e != nil {
			respT = rErr(e)
		} else {
			respT = C("RVal", S(string(v)), N(cs))
		}
	case "Get":
		opT = C("KGetRaw")
		var v []byte
		cs, e := c.Get(key, &v)
		if e != nil {
			respT = rErr(e)
		} else {
			respT = C("RVal", S(string(v)), N(cs))
		}
	case "Exists":
		opT = C("KExists")
		b, e := c.Exists(key)
		if e != nil {
			respT = rErr(e)
		} else {
			respT = C("RBool", B(b))
		}
	case "GetExpiry":
		opT = C("KGetExpiry")
		x, e := c.GetExpiry(ctxBg, key)
		if e != nil {
			respT = rErr(e)
		} else {
			respT = C("RNum", N(uint64(x)))
		}
	case "GetWithXattrs":
		opT = C("KGetWithXattrs", strsTerm(op.Names))
		body, xs, cs, e := c.GetWithXattrs(ctxBg, key, op.Names)
		if e != nil {
			respT = rErr(e)
		} else {
			respT = C("RDoc", optBytes(body), xattrPairs(xs), N(cs))
		}
	case "GetXattrs":
		opT = C("KGetXattrs", strsTerm(op.Names))
		xs, cs, e := c.GetXattrs(ctxBg, key, op.Names)
		if e != nil {
			respT = rErr(e)
		} else {
			respT = C("RXattrs", xattrPairs(xs), N(cs))
		}
	case "GetSubDocRaw":
		opT = C("KGetSubDocRaw", S(op.Path))
		v, cs, e := c.GetSubDocRaw(ctxBg, key, op.Path)
		if e != nil {
			respT = rErr(e)
		} else {
			respT = C("RVal", S(string(v)), N(cs))
		}
	case "Add":
		opT = C("KAdd", N(uint64(op.Exp)), valTerm(op.Val, false))
		added, e := c.Add(key, op.Exp, valAny(op.Val))
		if e != nil {
			respT = rErr(e)
		} else {
			respT = C("RAdded", B(added))
		}
	case "AddRaw":
		opT = C("KAddRaw", N(uint64(op.Exp)), valTerm(op.Val, true))
		added, e := c.AddRaw(key, op.Exp, valBytes(op.Val))
		if e != nil {
			respT = rErr(e)
		} else {
			respT = C("RAdded", B(added))
		}
	case "Set":
		opT = C("KSet", N(uint64(op.Exp)), B(op.Preserve), valTerm(op.Val, false))
		respT = okResp(c.Set(key, op.Exp, &sgbucket.UpsertOptions{PreserveExpiry: op.Preserve}, valAny(op.Val)))
	case "SetRaw":
		opT = C("KSetRaw", N(uint64(op.Exp)), B(op.Preserve), valTerm(op.Val, true))
		var uo *sgbucket.UpsertOptions
		if op.Preserve {
			uo = &sgbucket.UpsertOptions{PreserveExpiry: true}
		}
		respT = okResp(c.SetRaw(key, op.Exp, uo, valBytes(op.Val)))
	case "WriteCas":
		opT = C("KWriteCas", N(uint64(op.Exp)), N(cas), optStr(op.Val), B(op.Raw), B(op.Append), B(op.AddOnly))
		var wo sgbucket.WriteOptions
		if op.Raw {
			wo |= sgbucket.Raw
		}
		if op.Append {
			wo |= sgbucket.Append
		}
		if op.AddOnly {
			wo |= sgbucket.AddOnly
		}
		var val any
		if op.Val != nil {
			val = []byte(*op.Val)
		}
		respT = casResp(c.WriteCas(key, op.Exp, cas, val, wo))
	case "Remove":
		opT = C("KRemove", N(cas))
		respT = casResp(c.Remove(key, cas))
	case "Delete":
		opT = C("KDelete")
		respT = okResp(c.Delete(key))
	case "Incr":
		opT = C("KIncr", N(op.Amt), N(op.Deflt), N(uint64(op.Exp)))
		n, e := c.Incr(key, op.Amt, op.Deflt, op.Exp)
		if e != nil {
			respT = rErr(e)
		} else {
			respT = C("RNum", N(n))
		}
	case "Touch":
		opT = C("KTouch", N(uint64(op.Exp)))
		respT = casResp(c.Touch(key, op.Exp))
	case "GetAndTouchRaw":
		opT = C("KGetAndTouch", N(uint64(op.Exp)))
		v, cs, e := c.GetAndTouchRaw(key, op.Exp)
		if e != nil {
			respT = rErr(e)
		} else {
			respT = C("RVal", S(string(v)), N(cs))
		}
	case "Update":
		cb := op.Cb
		var cbT Term
		switch cb.Kind {
		case "cancel":
			cbT = C("UCancel")
		case "fail":
			cbT = C("UFail")
		case "set":
			cbT = C("USet", S(*cb.Val), optExpTerm(cb.NewExp))
		case "append":
			cbT = C("UAppend", S(*cb.Val), optExpTerm(cb.NewExp))
		case "delete":
			cbT = C("UDelete", optExpTerm(cb.NewExp))
		case "exponly":
			cbT = C("UExpOnly", N(uint64(*cb.NewExp)))
		}
		opT = C("KUpdate", N(uint64(op.Exp)), cbT)
		calls := 0
		co, e := c.Update(key, op.Exp, func(cur []byte) ([]byte, *uint32, bool, error) {
			calls++
			k.windowPass()
			if calls > 3 {
				return nil, nil, false, errors.New("callback called too often")
			}
			switch cb.Kind {
			case "cancel":
				return nil, nil, false, nil
			case "fail":
				return nil, nil, false, errors.New("callback failure")
			case "set":
				return []byte(*cb.Val), cb.NewExp, false, nil
			case "append":
				return append(append([]byte{}, cur...), []byte(*cb.Val)...), cb.NewExp, false, nil
			case "delete":
				return nil, cb.NewExp, true, nil
			default:
				return nil, cb.NewExp, false, nil
			}
		})
		respT = casResp(co, e)
	case "SetWithMeta", "DeleteWithMeta":
		if cur := k.resolveCas("current", st.Coll, st.Key); op.NewCasCur && cur != 0 {
			op.NewCas = cur
		}
		if op.Kind == "DeleteWithMeta" {
			opT = C("KDeleteWithMeta", N(cas), N(op.NewCas), N(uint64(op.Exp)), xcolTerm(op.XObj))
			respT = okResp(c.DeleteWithMeta(ctxBg, key, cas, op.NewCas, op.Exp, xcolBytes(op.XObj)))
			break
		}
		opT = C("KSetWithMeta", N(cas), N(op.NewCas), N(uint64(op.Exp)), xcolTerm(op.XObj), optStr(op.Val), B(op.IsJSON))
		dt := sgbucket.FeedDataTypeRaw
		if op.IsJSON {
			dt = sgbucket.FeedDataTypeJSON
		}
		respT = okResp(c.SetWithMeta(ctxBg, key, cas, op.NewCas, op.Exp, xcolBytes(op.XObj), valBytes(op.Val), dt))
	case "SetXattrs":
		opT = C("KSetXattrs", xsTerm(op.Xs))
		respT = casResp(c.SetXattrs(ctxBg, key, xsMap(op.Xs)))
	case "RemoveXattrs":
		opT = C("KRemoveXattrs", strsTerm(op.Names), N(cas))
		respT = okResp(c.RemoveXattrs(ctxBg, key, op.Names, cas))
	case "DeleteSubDocPaths":
		opT = C("KDeleteSubDocPaths", strsTerm(op.Names))
		respT = okResp(c.DeleteSubDocPaths(ctxBg, key, op.Names...))
	case "DeleteWithXattrs":
		opT = C("KDeleteWithXattrs", strsTerm(op.Names))
		respT = okResp(c.DeleteWithXattrs(ctxBg, key, op.Names))
	case "WriteWithXattrs":
		opT = C("KWriteWithXattrs", N(uint64(op.Exp)), N(cas), optStr(op.Val), xsTerm(op.Xs), delsTerm(op.Dels), B(op.Preserve), macrosTerm(op.Macros))
		respT = casResp(c.WriteWithXattrs(ctxBg, key, op.Exp, cas, valBytes(op.Val), xsMap(op.Xs), delsSlice(op.Dels), mutateOpts(op.Preserve, op.Macros)))
	case "WriteTombstoneWithXattrs":
		opT = C("KWriteTombstoneWithXattrs", N(uint64(op.Exp)), N(cas), xsTerm(op.Xs), delsTerm(op.Dels), B(op.DeleteBody), macrosTerm(op.Macros))
		respT = casResp(c.WriteTombstoneWithXattrs(ctxBg, key, op.Exp, cas, xsMap(op.Xs), delsSlice(op.Dels), op.DeleteBody, mutateOpts(false, op.Macros)))
	case "WriteResurrectionWithXattrs":
		opT = C("KWriteResurrectionWithXattrs", N(uint64(op.Exp)), optStr(op.Val), xsTerm(op.Xs), B(op.Preserve), macrosTerm(op.Macros))
		respT = casResp(c.WriteResurrectionWithXattrs(ctxBg, key, op.Exp, valBytes(op.Val), xsMap(op.Xs), mutateOpts(op.Preserve, op.Macros)))
	case "UpdateXattrs":
		opT = C("KUpdateXattrs", N(uint64(op.Exp)), N(cas), xsTerm(op.Xs), macrosTerm(op.Macros))
		respT = casResp(c.UpdateXattrs(ctxBg, key, op.Exp, cas, xsMap(op.Xs), mutateOpts(false, op.Macros)))
	case "UpdateXattrDeleteBody":
		opT = C("KUpdateXattrDeleteBody", S(op.Name), N(uint64(op.Exp)), N(cas), S(*op.Val), macrosTerm(op.Macros))
		respT = casResp(c.UpdateXattrDeleteBody(ctxBg, key, op.Name, op.Exp, cas, []byte(*op.Val), mutateOpts(false, op.Macros)))
	case "WriteUpdateWithXattrs":
		cb := op.Cb
		var cbT Term
		if cb.Kind == "fail" {
			cbT = C("WUFail")
		} else {
			cbT = C("WUResult", C("mkWu", optStr(cb.Val), xsTerm(cb.Xs), delsTerm(cb.Dels), B(cb.Tomb), optExpTerm(cb.NewExp), macrosTerm(cb.Spec), B(op.Preserve)))
		}
		opT = C("KWriteUpdateWithXattrs", cbT, macrosTerm(op.Macros))
		calls := 0
		var shown uint64
		var shownXs map[string]string
		co, e := c.WriteUpdateWithXattrs(ctxBg, key, kvXnames, 0, nil, mutateOpts(op.Preserve, op.Macros),
			func(doc []byte, xattrs map[string][]byte, cas uint64) (sgbucket.UpdatedDoc, error) {
				calls++
				shown = cas
				shownXs = map[string]string{}
				for n, v := range xattrs {
					shownXs[n] = string(v)
				}
				k.windowPass()
				if cb.Kind == "fail" || calls > 2 {
					return sgbucket.UpdatedDoc{}, errors.New("callback failure")
				}
				ud := sgbucket.UpdatedDoc{Doc: valBytes(cb.Val), Xattrs: xsMap(cb.Xs), XattrsToDelete: delsSlice(cb.Dels), IsTombstone: cb.Tomb, Expiry: cb.NewExp}
				for _, m := range cb.Spec {
					t := sgbucket.MacroCas
					if m.Kind == "crc" {
						t = sgbucket.MacroCrc32c
					}
					ud.Spec = append(ud.Spec, sgbucket.NewMacroExpansionSpec(m.Path, t))
				}
				return ud, nil
			})
		respT = casResp(co, e)
		if w := k.win; e == nil && w != nil && w.fired && w.err == nil && cb.Kind != "fail" {
			// the loop's write was accepted: it must have been computed from the version that was current then -
			// the one the nested call left
			if cur := k.curCas[st.Coll+"/"+st.Key]; cur != 0 && shown != cur {
				k.lostUpdate = fmt.Sprintf("WriteUpdateWithXattrs on %s/%s wrote on top of CAS %d, which its callback was never shown (it was last shown CAS %d)", st.Coll, st.Key, cur, shown)
			} else if cur != 0 {
				cx := k.curXs[st.Coll+"/"+st.Key]
				for _, n := range kvXnames {
					if a, b := shownXs[n], cx[n]; a != b {
						k.lostUpdate = fmt.Sprintf("WriteUpdateWithXattrs on %s/%s wrote on top of a version whose xattr %s is %q; its callback was last shown %q", st.Coll, st.Key, n, b, a)
					}
				}
			}
		}
	case "WriteSubDoc":
		opT = C("KWriteSubDoc", S(op.Path), N(cas), S(*op.Val))
		respT = casResp(c.WriteSubDoc(ctxBg, key, op.Path, cas, []byte(*op.Val)))
	case "SubdocInsert":
		opT = C("KSubdocInsert", S(op.Path), N(cas), S(*op.Val))
		var v any
		if e := json.Unmarshal([]byte(*op.Val), &v); e != nil && *op.Val != "" {
			// mirror WriteSubDoc: an unparseable value cannot be passed as a Go value
			respT = C("RErr", C("EOther"))
		} else {
			respT = okResp(c.SubdocInsert(ctxBg, key, op.Path, cas, v))
		}
	default:
		return nil, nil, fmt.Errorf("unknown op kind %q", op.Kind)
	}
	return opT, respT, nil
}

var kvSerial int64

// the id of the calling goroutine (from the first line of its stack trace: "goroutine 123 [running]:")
func goid() int64 {
	var buf [64]byte
	n := runtime.Stack(buf[:], false)
	var id int64
	for _, ch := range buf[len("goroutine "):n] {
		if ch < '0' || ch > '9' {
			break
		}
		id = id*10 + int64(ch-'0')
	}
	return id
}

// Between two histories no hook is installed by the history; the expiry timer of a bucket that is being closed may
// still fire (its callback has been started by the runtime, Stop comes too late for it) and would run on the
// closed store - the recorded finding KF-C20-panic, which kills the process.  Park such late firings for good.
func parkLateTimers() {
	rosmar.VerifSetHook(func(point string, args ...any) {
		if point == "expiry.fire" {
			select {}
		}
	})
}

// execKv runs one history under a watchdog: if the implementation panics or blocks, the case is
// emitted with Fatal set (the prefix observed so far is kept) and the process must not be reused.
func execKv(in kvInput, scratch string) (Case, error) {
	type result struct {
		c   Case
		err error
	}
	ch := make(chan result, 1)
	prog := &kvProgress{}
	go func() {
		defer func() {
			if r := recover(); r != nil {
				c := prog.partial(in)
				c.Fatal = fmt.Sprintf("panic at step %d (%s): %v", prog.step, prog.what, r)
				ch <- result{c, nil}
			}
		}()
		c, err := execKvInner(in, scratch, prog)
		ch <- result{c, err}
	}()
	select {
	case r := <-ch:
		return r.c, r.err
	case <-time.After(20 * time.Second):
		c := prog.partial(in)
		c.Fatal = fmt.Sprintf("blocked for 20s at step %d (%s)", prog.step, prog.what)
		return c, nil
	}
}

type kvProgress struct {
	mu    sync.Mutex
	step  int
	what  string
	steps []any
	obs   []any
	notes []string
}

func (p *kvProgress) partial(in kvInput) Case {
	p.mu.Lock()
	defer p.mu.Unlock()
	c := Case{Input: in}
	c.CoqInput = C("mkScase", strsTerm(kvColls), strsTerm(kvKeys), strsTerm(kvXnames), L(append([]any{}, p.steps...)...))
	c.CoqObs = L(append([]any{}, p.obs...)...)
	c.Notes = append([]string{}, p.notes...)
	return c
}

func execKvInner(in kvInput, scratch string, prog *kvProgress) (Case, error) {
	c := Case{Input: in}
	id := atomic.AddInt64(&kvSerial, 1)
	dir, err := os.MkdirTemp(scratch, "kv_")
	if err != nil {
		return c, err
	}
	defer os.RemoveAll(dir)
	k := &kvRun{in: in, dir: dir, name: fmt.Sprintf("kvb_%d_%d", os.Getpid(), id), feeds: map[string]*liveFeed{},
		lastCas: map[string][]uint64{}, cells: map[string]bool{}, class: map[string]string{}}
	rosmar.VerifSetClock(func() uint64 { return atomic.LoadUint64(&k.clock) })
	defer rosmar.VerifSetClock(nil)
	rosmar.VerifResetHLC(0)
	rosmar.VerifSetHook(func(point string, args ...any) {
		switch point {
		case "post.snapshot":
			atomic.AddInt64(&k.posted, 1)
		case "subdoc.window":
			k.windowPass()
		case "txn.begin":
			if w := k.win; w != nil && !w.busy {
				w.begins++
			}
		case "txn.committed":
			if g := atomic.LoadInt64(&k.winG); g != 0 && g == goid() && len(args) > 1 && args[1] == nil {
				atomic.StoreInt32(&k.winCommitted, 1)
			}
		case "expiry.window":
			if w := k.sweep; w != nil && w.gid == goid() {
				w.seen++
				if w.seen-1 == w.idx {
					if len(args) > 1 {
						w.keys, _ = args[1].([]string)
					}
					close(w.open)
					<-w.release
				}
			}
		case "expiry.fire":
			// the history decides when the expiry timer fires (steps of kind "expire" call the timer's
			// callback synchronously); a firing of the real timer is parked for the rest of the process
			if atomic.LoadInt64(&k.manualExpiry) != goid() {
				select {}
			}
		}
	})
	defer parkLateTimers()
	old := rosmar.MaxDocSize
	rosmar.MaxDocSize = in.MaxDoc
	defer func() { rosmar.MaxDocSize = old }()

	url := rosmar.InMemoryURL
	if in.OnDisk {
		url = "rosmar://" + filepath.Join(dir, "b")
	}
	nh := in.Handles
	if nh < 1 {
		nh = 1
	}
	k.url = url
	for i := 0; i < nh; i++ {
		h, err := rosmar.OpenBucket(url, k.name, rosmar.CreateOrOpen)
		if err != nil {
			return c, err
		}
		k.handles = append(k.handles, h)
	}
	defer func() {
		if r := recover(); r != nil {
			// do not try to clean up after a panic inside the implementation: locks may be held
			panic(r)
		}
		for _, lf := range k.feeds {
			close(lf.term)
		}
		if len(k.handles) > 0 {
			for _, h := range k.handles[1:] {
				h.Close(ctxBg)
			}
			_ = k.handles[0].CloseAndDelete(ctxBg)
		}
	}()
	// a keys-only feed registered BEFORE the full feed of the default collection: its presence must not change
	// what the full feed receives, and what it receives must be what the full feed receives minus the values
	// (compared at the end of a history without a reopen, which ends it)
	koTerm := make(chan bool)
	var koMu sync.Mutex
	var koEvents []sgbucket.FeedEvent
	if dc, err := k.coll(0, "_default._default"); err == nil {
		_ = dc.StartDCPFeed(ctxBg, sgbucket.FeedArguments{ID: "keysonly", Backfill: sgbucket.FeedNoBackfill, KeysOnly: true, Terminator: koTerm},
			func(ev sgbucket.FeedEvent) bool {
				koMu.Lock()
				koEvents = append(koEvents, ev)
				koMu.Unlock()
				return true
			}, nil)
	}
	defer close(koTerm)
	if err := k.startFeed("_default._default"); err != nil {
		return c, err
	}

	var steps, obs []any
	var pendingLive []any
	prevSnap, err := k.snapshot()
	if err != nil {
		return c, err
	}
	for i, st := range in.Ops {
		if st.Handle >= nh {
			st.Handle = 0
		}
		atomic.StoreUint64(&k.clock, st.Clock)
		prog.mu.Lock()
		prog.step, prog.what = i, st.Kind
		if st.Op != nil {
			prog.what += " " + st.Op.Kind
		}
		prog.notes = append([]string{}, k.notes...)
		prog.mu.Unlock()
		now0 := time.Now().Unix()
		var opT, respT Term
		var dumpEvs []any
		usesRelExp := false
		switch st.Kind {
		case "kv":
			exist, _, err := k.existingColls()
			if err != nil {
				return c, err
			}
			if !exist[st.Coll] {
				c.Discard = fmt.Sprintf("step %d addresses collection %s which does not exist (invalid input)", i, st.Coll)
				break
			}
			e := st.Op.Exp
			if e > 0 && e <= 2592000 {
				usesRelExp = true
			}
			if st.Op.Cb != nil && st.Op.Cb.NewExp != nil && *st.Op.Cb.NewExp > 0 && *st.Op.Cb.NewExp <= 2592000 {
				usesRelExp = true
			}
			if st.Nested != nil && windowOK(st, k.class[st.Coll+"/"+st.Key]) {
				ne := st.Nested.Exp
				if ne > 0 && ne <= 2592000 {
					usesRelExp = true
				}
				oh := (st.Handle + 1) % nh
				k.win = &windowRun{step: Step{Kind: "kv", Coll: st.Coll, Key: st.Key, Handle: oh, Op: st.Nested, Clock: st.Clock}}
			}
			var kt Term
			kt, respT, err = k.doKv(st)
			win := k.win
			k.win = nil
			if err != nil {
				return c, err
			}
			if k.lostUpdate != "" {
				c.Fatal = k.lostUpdate
				return c, nil
			}
			opT = C("SKv", S(st.Coll), S(st.Key), kt)
			if win != nil && win.fired {
				if win.err != nil {
					return c, win.err
				}
				sctx := C("mkSctx", N(st.Clock), N(uint64(now0)), N(uint64(in.MaxDoc)))
				if win.begins == 0 {
					// the enclosing call never began a transaction: whatever it answered, it answered from what it
					// read before the nested call and it changed nothing - it takes effect first
					if prevSnap == nil {
						return c, fmt.Errorf("no snapshot before step %d", i)
					}
					steps = append(steps, P(sctx, opT))
					obs = append(obs, C("mkOstep", respT, L(), L(), prevSnap))
					opT, respT = win.opT, win.respT
					pendingLive = win.live
				} else {
					steps = append(steps, P(sctx, win.opT))
					obs = append(obs, C("mkOstep", win.respT, L(win.live...), L(), win.snap))
					// the transactions the enclosing call began; the model subtracts what the call accounts for itself
					steps = append(steps, P(sctx, C("SDraw", S(st.Coll), S(st.Key), kt, N(uint64(win.begins)))))
					obs = append(obs, C("mkOstep", C("ROk"), L(), L(), win.snap))
				}
				k.cells[fmt.Sprintf("window|%s|%s|txns=%d", st.Op.Kind, st.Nested.Kind, win.begins)] = true
			}
			pre := k.class[st.Coll+"/"+st.Key]
			if pre == "" {
				pre = "absent"
			}
			out := "ok"
			if respT["c"] == "RErr" {
				out = respT["a"].([]any)[0].(Term)["c"].(string)
			} else if respT["c"] == "RAdded" && respT["a"].([]any)[0].(Term)["b"] == false {
				out = "refused"
			}
			k.cells[pre+"|"+st.Op.Kind+"|"+st.Op.CasMode+"|"+out] = true
		case "purge":
			opT = C("SPurge")
			ph := k.handles[st.Handle]
			if st.Fresh {
				fh, err := rosmar.OpenBucket(k.url, k.name, rosmar.CreateOrOpen)
				if err != nil {
					return c, fmt.Errorf("open for purge: %w", err)
				}
				ph = fh
			}
			n, e := ph.PurgeTombstones()
			if st.Fresh {
				ph.Close(ctxBg)
			}
			if e != nil {
				respT = rErr(e)
			} else {
				respT = C("RNum", N(uint64(n)))
			}
		case "create":
			opT = C("SCreateColl", S(st.Coll))
			e := k.handles[st.Handle].CreateDataStore(ctxBg, dsName(st.Coll))
			if e != nil {
				respT = rErr(e)
			} else {
				respT = C("ROk")
				if err := k.startFeed(st.Coll); err != nil {
					return c, err
				}
			}
		case "drop":
			opT = C("SDropColl", S(st.Coll))
			dh := k.handles[st.Handle]
			if st.Fresh {
				// through a handle opened for the purpose, which has opened no collection
				fh, err := rosmar.OpenBucket(k.url, k.name, rosmar.CreateOrOpen)
				if err != nil {
					return c, fmt.Errorf("open for drop: %w", err)
				}
				dh = fh
			}
			e := dh.DropDataStore(dsName(st.Coll))
			if st.Fresh {
				dh.Close(ctxBg)
			}
			if e != nil {
				respT = rErr(e)
			} else {
				respT = C("ROk")
				if lf := k.feeds[st.Coll]; lf != nil {
					select {
					case <-lf.done:
					case <-time.After(3 * time.Second):
						k.notes = append(k.notes, "feed of dropped collection did not terminate")
					}
					delete(k.feeds, st.Coll)
				}
			}
		case "dump":
			exist, _, err := k.existingColls()
			if err != nil {
				return c, err
			}
			if !exist[st.Coll] {
				c.Discard = fmt.Sprintf("step %d dumps collection %s which does not exist (invalid input)", i, st.Coll)
				break
			}
			start := k.resolveCas(st.Start, st.Coll, st.Key) + st.Plus
			if start == sgbucket.FeedResume {
				start = 2 // 1 is the FeedResume marker, not a CAS
			}
			opT = C("SDump", S(st.Coll), N(start))
			if st.KeysOnly {
				opT = C("SDumpKeys", S(st.Coll), N(start))
			}
			col, err := k.coll(0, st.Coll)
			if err != nil {
				return c, err
			}
			var evs []sgbucket.FeedEvent
			if st.ViaBucket {
				evs, err = k.dumpViaBucket(col, start, st.KeysOnly)
			} else {
				evs, err = dumpFeedArgs(col, start, st.KeysOnly)
			}
			if err != nil {
				return c, err
			}
			for _, ev := range evs {
				dumpEvs = append(dumpEvs, feventTerm(ev))
			}
			respT = C("ROk")
		case "putddoc", "delddoc", "view", "getddocs":
			exist, _, err := k.existingColls()
			if err != nil {
				return c, err
			}
			if !exist[st.Coll] {
				c.Discard = fmt.Sprintf("step %d addresses collection %s which does not exist (invalid input)", i, st.Coll)
				break
			}
			col, err := k.coll(st.Handle, st.Coll)
			if err != nil {
				return c, err
			}
			switch st.Kind {
			case "putddoc":
				var vts []any
				for _, v := range st.Views {
					vts = append(vts, P(S(v.Name), N(uint64(v.Map))))
				}
				opT = C("SPutDDoc", S(st.Coll), S(st.DDoc), L(vts...))
				if e := col.PutDDoc(ctxBg, st.DDoc, mkDesignDoc(st.Views)); e != nil {
					respT = rErr(e)
				} else {
					respT = C("ROk")
				}
			case "getddocs":
				opT = C("SGetDDocs", S(st.Coll))
				dds, e := col.GetDDocs()
				if e != nil {
					respT = rErr(e)
				} else {
					var lines []string
					for dn, dd := range dds {
						lines = append(lines, dn)
						// GetDDoc must agree with the listing
						if one, e1 := col.GetDDoc(dn); e1 != nil || len(one.Views) != len(dd.Views) {
							lines = append(lines, dn+"!GetDDoc disagrees")
						}
						for vn, vd := range dd.Views {
							m := -1
							for j, src := range mapSources {
								if src == vd.Map {
									m = j
								}
							}
							if vd.Reduce != "" {
								m += len(mapSources)
							}
							lines = append(lines, fmt.Sprintf("%s/%s=%d", dn, vn, m))
						}
					}
					for _, dn := range []string{"dd", "dd2", "other"} {
						if _, listed := dds[dn]; !listed {
							if _, e1 := col.GetDDoc(dn); e1 == nil {
								lines = append(lines, dn+"!GetDDoc finds what GetDDocs does not list")
							}
						}
					}
					sort.Strings(lines)
					respT = C("RRows", strsTerm(lines))
				}
				k.cells["getddocs"] = true
			case "delddoc":
				opT = C("SDelDDoc", S(st.Coll), S(st.DDoc))
				if e := col.DeleteDDoc(st.DDoc); e != nil {
					respT = rErr(e)
				} else {
					respT = C("ROk")
				}
			case "view":
				vp := st.VP
				if vp == nil {
					vp = &ViewParams{}
				}
				params, vpT := viewParams(vp)
				opT = C("SView", S(st.Coll), S(st.DDoc), S(st.View), vpT)
				res, e := col.View(ctxBg, st.DDoc, st.View, params)
				if e != nil {
					respT = rErr(e)
				} else {
					var rows []any
					for _, r := range res.Rows {
						kb, _ := json.Marshal(r.Key)
						vb, _ := json.Marshal(r.Value)
						rows = append(rows, S(r.ID+"|"+string(kb)+"|"+string(vb)))
					}
					respT = C("RRows", L(rows...))
				}
				k.cells[fmt.Sprintf("view|stale=%v|desc=%v|limit=%v|range=%v|key=%v", vp.Stale, vp.Descending, vp.Limit > 0, vp.StartKey != nil || vp.EndKey != nil, vp.Key != nil)] = true
			}
		case "query":
			exist, _, err := k.existingColls()
			if err != nil {
				return c, err
			}
			if !exist[st.Coll] {
				c.Discard = fmt.Sprintf("step %d queries collection %s which does not exist (invalid input)", i, st.Coll)
				break
			}
			col, err := k.coll(st.Handle, st.Coll)
			if err != nil {
				return c, err
			}
			stmt, qT, args := queryTemplate(st.Q, st.Arg)
			opT = C("SQuery", S(st.Coll), qT)
			it, e := col.Query(sgbucket.SQLiteLanguage, stmt, args, sgbucket.RequestPlus, false)
			if e != nil {
				respT = rErr(e)
				k.notes = append(k.notes, "query error: "+e.Error())
			} else {
				var rows []any
				for {
					r := it.NextBytes()
					if r == nil {
						break
					}
					rows = append(rows, S(string(r)))
				}
				if e := it.Close(); e != nil {
					respT = rErr(e)
					k.notes = append(k.notes, "query close error: "+e.Error())
				} else {
					respT = C("RRows", L(rows...))
				}
			}
			k.cells["query|"+st.Q] = true
		case "expire":
			exist, order, err := k.existingColls()
			if err != nil {
				return c, err
			}
			if st.WinColl == "" || !exist[st.WinColl] {
				opT = C("SExpire")
				atomic.StoreInt64(&k.manualExpiry, goid())
				k.handles[0].VerifRunExpiry()
				atomic.StoreInt64(&k.manualExpiry, 0)
				respT = C("ROk")
				break
			}
			// The sweep is held between its query of collection WinColl and its removals; the calls of st.Win are made
			// meanwhile.  The history records: SExpireScan (what the query returned), the calls, SExpireK (the rest).
			sw := &sweepRun{open: make(chan struct{}), release: make(chan struct{})}
			for j, n := range order {
				if n == st.WinColl {
					sw.idx = j
				}
			}
			pre := uint64(k.handles[0].VerifNextExp())
			sweepDone := make(chan any, 1)
			gidCh := make(chan int64, 1)
			go func() {
				defer func() { sweepDone <- recover() }()
				g := goid()
				sw.gid = g
				k.sweep = sw
				atomic.StoreInt64(&k.manualExpiry, g)
				gidCh <- g
				k.handles[0].VerifRunExpiry()
			}()
			<-gidCh
			select {
			case <-sw.open:
			case r := <-sweepDone:
				if r != nil {
					panic(r)
				}
				return c, fmt.Errorf("the sweep ended without reaching the window of %s", st.WinColl)
			case <-time.After(10 * time.Second):
				c.Fatal = fmt.Sprintf("the expiry sweep did not reach the window of %s within 10s (step %d)", st.WinColl, i)
				return c, nil
			}
			fake := pre
			k.fakeNext = &fake
			sctxAt := func(clock uint64, now int64) Term { return C("mkSctx", N(clock), N(uint64(now)), N(uint64(in.MaxDoc))) }
			{
				var rows []any
				for _, key := range sw.keys {
					rows = append(rows, S(key))
				}
				live := k.collectLive(atomic.LoadInt64(&k.posted))
				snap, err := k.snapshot()
				if err != nil {
					return c, err
				}
				steps = append(steps, P(sctxAt(st.Clock, now0), C("SExpireScan", S(st.WinColl))))
				obs = append(obs, C("mkOstep", C("RRows", L(rows...)), L(live...), L(), snap))
				k.cells[fmt.Sprintf("sweepwin|scan|%d", len(sw.keys))] = true
			}
			type winCall struct {
				opT, respT Term
				err        error
			}
			type pendingCall struct {
				ch         chan winCall
				posS, posO int // where its step and its observation are
				sctx       Term
				live       []any
				snap       Term
			}
			var parkedCalls []pendingCall
			var parkedExps []any
			for _, ws := range st.Win {
				if ws.Kind != "kv" || ws.Op == nil || !exist[ws.Coll] {
					continue
				}
				if ws.Handle >= nh {
					ws.Handle = 0
				}
				atomic.StoreUint64(&k.clock, ws.Clock)
				wnow := time.Now().Unix()
				postedBefore := atomic.LoadInt64(&k.posted)
				atomic.StoreInt32(&k.winCommitted, 0)
				ch := make(chan winCall, 1)
				started := make(chan struct{})
				go func(ws Step) {
					atomic.StoreInt64(&k.winG, goid())
					close(started)
					kt, rt, err := k.doKv(ws)
					ch <- winCall{C("SKv", S(ws.Coll), S(ws.Key), kt), rt, err}
				}(ws)
				<-started
				isTouch := ws.Op.Kind == "Touch" || ws.Op.Kind == "GetAndTouchRaw"
				var res *winCall
				parked := false
				var live []any
				waitUntil := time.Now().Add(10 * time.Second)
				for res == nil && !parked {
					select {
					case r := <-ch:
						res = &r
						continue
					default:
					}
					if atomic.LoadInt64(&k.posted) > postedBefore {
						// the call has posted its event: if the event carries an expiry the call now waits for the expiry manager
						live = k.collectLive(atomic.LoadInt64(&k.posted))
						var exp uint32
						for _, ev := range k.lastDrained {
							if string(ev.Key) == ws.Key {
								exp = ev.Expiry
							}
						}
						if exp != 0 {
							parked = true
							fake = schedNext(fake, uint64(exp))
							parkedExps = append(parkedExps, N(uint64(exp)))
						} else {
							select {
							case r := <-ch:
								res = &r
							case <-time.After(10 * time.Second):
								c.Fatal = fmt.Sprintf("a %s inside the sweep's window did not return (step %d)", ws.Op.Kind, i)
								return c, nil
							}
						}
						continue
					}
					if isTouch && ws.Op.Exp != 0 && atomic.LoadInt32(&k.winCommitted) == 1 {
						// a touch posts no event; with an expiry to announce it waits for the expiry manager after its commit
						parked = true
						if wc, err := k.coll(0, ws.Coll); err == nil {
							if e, err := wc.GetExpiry(ctxBg, ws.Key); err == nil {
								fake = schedNext(fake, uint64(e))
								parkedExps = append(parkedExps, N(uint64(e)))
							}
						}
						continue
					}
					if time.Now().After(waitUntil) {
						c.Fatal = fmt.Sprintf("a %s inside the sweep's window neither returned nor posted within 10s (step %d)", ws.Op.Kind, i)
						return c, nil
					}
					time.Sleep(200 * time.Microsecond)
				}
				atomic.StoreInt64(&k.winG, 0)
				if res != nil && res.err != nil {
					return c, res.err
				}
				if live == nil {
					live = k.collectLive(atomic.LoadInt64(&k.posted))
				}
				if res != nil && isTouch && res.respT["c"] != "RErr" {
					if wc, err := k.coll(0, ws.Coll); err == nil {
						if e, err := wc.GetExpiry(ctxBg, ws.Key); err == nil {
							fake = schedNext(fake, uint64(e))
						}
					}
				}
				snap, err := k.snapshot()
				if err != nil {
					return c, err
				}
				var wopT, wrespT Term
				if res != nil {
					wopT, wrespT = res.opT, res.respT
				}
				steps = append(steps, P(sctxAt(ws.Clock, wnow), wopT))
				obs = append(obs, C("mkOstep", wrespT, L(live...), L(), snap))
				if parked {
					parkedCalls = append(parkedCalls, pendingCall{ch, len(steps) - 1, len(obs) - 1, sctxAt(ws.Clock, wnow), live, snap})
				}
				k.cells[fmt.Sprintf("sweepwin|%s|parked=%v", ws.Op.Kind, parked)] = true
			}
			// let the sweep go on
			atomic.StoreUint64(&k.clock, st.Clock)
			k.fakeNext = nil
			close(sw.release)
			select {
			case r := <-sweepDone:
				if r != nil {
					panic(r)
				}
			case <-time.After(10 * time.Second):
				c.Fatal = fmt.Sprintf("the expiry sweep did not finish within 10s of being let go (step %d)", i)
				return c, nil
			}
			k.sweep = nil
			atomic.StoreInt64(&k.manualExpiry, 0)
			for _, pc := range parkedCalls {
				select {
				case r := <-pc.ch:
					if r.err != nil {
						return c, r.err
					}
					// the call's answer is known only now; its step was recorded when it took effect
					steps[pc.posS] = P(pc.sctx, r.opT)
					obs[pc.posO] = C("mkOstep", r.respT, L(pc.live...), L(), pc.snap)
				case <-time.After(10 * time.Second):
					c.Fatal = fmt.Sprintf("a call parked behind the expiry sweep did not return after it (step %d)", i)
					return c, nil
				}
			}
			var keyTerms []any
			for _, key := range sw.keys {
				keyTerms = append(keyTerms, S(key))
			}
			opT = C("SExpireK", S(st.WinColl), L(keyTerms...), L(parkedExps...))
			respT = C("ROk")
		case "reopen":
			if !in.OnDisk {
				c.Discard = "reopen step on an in-memory bucket (invalid input)"
				break
			}
			opT = C("SReopen")
			names := []string{}
			for name, lf := range k.feeds {
				close(lf.term)
				names = append(names, name)
			}
			for _, name := range names {
				select {
				case <-k.feeds[name].done:
				case <-time.After(3 * time.Second):
					k.notes = append(k.notes, "live feed did not stop before reopen")
				}
				delete(k.feeds, name)
			}
			for _, h := range k.handles {
				h.Close(ctxBg)
			}
			k.handles = nil
			for j := 0; j < nh; j++ {
				mode := rosmar.OpenMode(rosmar.ReOpenExisting)
				if st.CreateOrOpen {
					mode = rosmar.CreateOrOpen
				}
				h, err := rosmar.OpenBucket(k.url, k.name, mode)
				if err != nil {
					return c, fmt.Errorf("reopen: %w", err)
				}
				k.handles = append(k.handles, h)
			}
			_, order, err := k.existingColls()
			if err != nil {
				return c, err
			}
			for _, cn := range order {
				if err := k.startFeed(cn); err != nil {
					return c, err
				}
			}
			respT = C("ROk")
		default:
			return c, fmt.Errorf("unknown step kind %q", st.Kind)
		}
		if c.Discard != "" {
			break
		}
		now1 := time.Now().Unix()
		if now0 != now1 && usesRelExp {
			// the wall-clock second changed during a call that used a relative expiry: the model
			// cannot know which second the code read.  Keep the prefix only.
			c.Notes = append(c.Notes, fmt.Sprintf("truncated at step %d: wall-clock second changed during a relative-expiry call", i))
			k.collectLive(atomic.LoadInt64(&k.posted)) // drop what this uncompared call delivered
			break
		}
		live := k.collectLive(atomic.LoadInt64(&k.posted))
		live = append(pendingLive, live...)
		pendingLive = nil
		snap, err := k.snapshot()
		if err != nil {
			return c, fmt.Errorf("snapshot after step %d: %w", i, err)
		}
		prevSnap = snap
		steps = append(steps, P(C("mkSctx", N(st.Clock), N(uint64(now0)), N(uint64(in.MaxDoc))), opT))
		obs = append(obs, C("mkOstep", respT, L(live...), L(dumpEvs...), snap))
		prog.mu.Lock()
		prog.steps, prog.obs = steps, obs
		prog.mu.Unlock()
	}
	// the keys-only feed against the full feed of the same collection
	reopened := false
	for _, st := range in.Ops {
		if st.Kind == "reopen" {
			reopened = true
		}
	}
	if !reopened && c.Discard == "" {
		deadline := time.Now().Add(2 * time.Second)
		for time.Now().Before(deadline) {
			koMu.Lock()
			n := len(koEvents)
			koMu.Unlock()
			if n >= len(k.fullDefault) {
				break
			}
			time.Sleep(200 * time.Microsecond)
		}
		koMu.Lock()
		if len(koEvents) != len(k.fullDefault) {
			c.Fatal = fmt.Sprintf("the KeysOnly live feed received %d events, the full feed of the same collection %d", len(koEvents), len(k.fullDefault))
		} else {
			for j, a := range koEvents {
				b := k.fullDefault[j]
				if a.Opcode != b.Opcode || string(a.Key) != string(b.Key) || a.Cas != b.Cas || a.Expiry != b.Expiry || a.RevNo != b.RevNo || a.CollectionID != b.CollectionID || len(a.Value) != 0 {
					c.Fatal = fmt.Sprintf("the KeysOnly live feed disagrees with the full feed on event %d of key %s (opcode %v/%v cas %d/%d expiry %d/%d revno %d/%d, value length %d)",
						j, a.Key, a.Opcode, b.Opcode, a.Cas, b.Cas, a.Expiry, b.Expiry, a.RevNo, b.RevNo, len(a.Value))
					break
				}
			}
		}
		koMu.Unlock()
	}
	// grace period: anything delivered late or twice?
	time.Sleep(2 * time.Millisecond)
	if extra := k.collectLive(0); len(extra) > 0 {
		k.notes = append(k.notes, fmt.Sprintf("%d extra feed events after the end of the history", len(extra)))
		obs = append(obs, C("mkOstep", C("RErr", C("EOther")), L(extra...), L(), C("mkSnap", L(), L(), L(), L())))
	}
	c.CoqInput = C("mkScase", strsTerm(kvColls), strsTerm(kvKeys), strsTerm(kvXnames), L(steps...))
	c.CoqObs = L(obs...)
	c.Notes = append(c.Notes, k.notes...)
	for cell := range k.cells {
		c.Cells = append(c.Cells, cell)
	}
	return c, nil
}
