module verifharness

go 1.19

require (
	github.com/couchbase/sg-bucket v0.0.0-20240606153601-d152b90edccb
	github.com/couchbaselabs/rosmar v0.0.0
)

require (
	github.com/google/uuid v1.6.0 // indirect
	github.com/mattn/go-sqlite3 v1.14.24 // indirect
	github.com/robertkrimen/otto v0.0.0-20211024170158-b87d35c0b86f // indirect
	golang.org/x/text v0.15.0 // indirect
	gopkg.in/sourcemap.v1 v1.0.5 // indirect
)

replace github.com/couchbaselabs/rosmar => /repo
