package main

// Family lin: goroutines on several handles hammer a few shared keys; every call is recorded with its
// invocation / response times and its response, a live feed records every event.  The events sorted by
// CAS are the claimed linearization of the successful mutations; coq/Lin.v replays it through the
// sequential model and checks reads, failed calls, real-time order and the one-winner rule.

import (
	"encoding/json"
	"errors"
	"fmt"
	"math/rand"
	"os"
	"path/filepath"
	"strconv"
	"sync"
	"sync/atomic"
	"time"

	sgbucket "github.com/couchbase/sg-bucket"
	"github.com/couchbaselabs/rosmar"
)

func init() { register(&family{name: "lin", run: runLin}) }

type linInput struct {
	OnDisk     bool  `json:"on_disk"`
	Handles    int   `json:"handles"`
	Goroutines int   `json:"goroutines"`
	OpsEach    int   `json:"ops_each"`
	Seed       int64 `json:"seed"`
}

type linRec struct {
	key      string
	inv, ret int64
	op, resp Term
	shown    *uint64
}

var linSerial int64

// a reusable barrier: every goroutine of a case passes it the same number of times
type linBarrier struct {
	mu    sync.Mutex
	cond  *sync.Cond
	n     int
	count int
	gen   int
	off   bool
}

func newLinBarrier(n int) *linBarrier {
	b := &linBarrier{n: n}
	b.cond = sync.NewCond(&b.mu)
	return b
}

func (b *linBarrier) wait() {
	b.mu.Lock()
	defer b.mu.Unlock()
	if b.off {
		return
	}
	gen := b.gen
	b.count++
	if b.count == b.n {
		b.gen++
		b.count = 0
		b.cond.Broadcast()
		return
	}
	for gen == b.gen && !b.off {
		b.cond.Wait()
	}
}

func (b *linBarrier) abort() {
	b.mu.Lock()
	b.off = true
	b.cond.Broadcast()
	b.mu.Unlock()
}

func execLin(in linInput, scratch string) (Case, error) {
	c := Case{Input: in}
	id := atomic.AddInt64(&linSerial, 1)
	dir, err := os.MkdirTemp(scratch, "lin_")
	if err != nil {
		return c, err
	}
	defer os.RemoveAll(dir)
	rosmar.VerifSetClock(nil)
	rosmar.VerifSetHook(nil)
	name := fmt.Sprintf("lin_%d_%d", os.Getpid(), id)
	url := rosmar.InMemoryURL
	if in.OnDisk {
		url = "rosmar://" + filepath.Join(dir, "b")
	}
	var handles []*rosmar.Bucket
	for i := 0; i < in.Handles; i++ {
		h, err := rosmar.OpenBucket(url, name, rosmar.CreateOrOpen)
		if err != nil {
			return c, err
		}
		handles = append(handles, h)
	}
	defer func() {
		for _, h := range handles[1:] {
			h.Close(ctxBg)
		}
		_ = handles[0].CloseAndDelete(ctxBg)
	}()
	var emu sync.Mutex
	events := map[string][]sgbucket.FeedEvent{}
	term := make(chan bool)
	err = handles[0].DefaultDataStore().(*rosmar.Collection).StartDCPFeed(ctxBg,
		sgbucket.FeedArguments{ID: "lin", Backfill: sgbucket.FeedNoBackfill, Terminator: term},
		func(ev sgbucket.FeedEvent) bool {
			emu.Lock()
			events[string(ev.Key)] = append(events[string(ev.Key)], ev)
			emu.Unlock()
			return true
		}, nil)
	if err != nil {
		return c, err
	}
	defer close(term)

	start := time.Now()
	var rmu sync.Mutex
	var recs []linRec
	var acks int64
	var uniq int64
	var wg sync.WaitGroup
	var fatal atomic.Value
	bar := newLinBarrier(in.Goroutines)
	for g := 0; g < in.Goroutines; g++ {
		wg.Add(1)
		go func(g int) {
			defer wg.Done()
			defer func() {
				if r := recover(); r != nil {
					fatal.Store(fmt.Sprintf("panic in goroutine %d: %v", g, r))
					bar.abort()
				}
			}()
			r := rand.New(rand.NewSource(in.Seed*1000 + int64(g)))
			col := handles[g%len(handles)].DefaultDataStore().(*rosmar.Collection)
			lastCas := map[string]uint64{}
			for i := 0; i < in.OpsEach; i++ {
				var rec linRec
				u := atomic.AddInt64(&uniq, 1)
				casResp := func(cs uint64, e error) Term {
					if e != nil {
						return rErr(e)
					}
					return C("RCas", N(cs))
				}
				if i%5 == 4 {
					// a burst: all goroutines read the same version of one key, then all try to replace it at once -
					// exactly one may win
					key := []string{"m", "u"}[(i/5)%2]
					bar.wait()
					rd := linRec{key: key, op: C("KGetRaw")}
					rd.inv = time.Since(start).Nanoseconds()
					v, cs, e := col.GetRaw(key)
					rd.ret = time.Since(start).Nanoseconds()
					if e != nil {
						rd.resp = rErr(e)
						cs = 0
					} else {
						rd.resp = C("RVal", S(string(v)), N(cs))
					}
					lastCas[key] = cs
					bar.wait()
					rec.key = key
					if key == "m" {
						nc := uint64(1)<<50 + uint64(u)
						val := fmt.Sprintf(`{"w":%d}`, u)
						rec.op = C("KSetWithMeta", N(cs), N(nc), N(0), C("XNull"), Some(S(val)), B(true))
						rec.inv = time.Since(start).Nanoseconds()
						e := col.SetWithMeta(ctxBg, "m", cs, nc, 0, nil, []byte(val), sgbucket.FeedDataTypeJSON)
						rec.ret = time.Since(start).Nanoseconds()
						if e != nil {
							rec.resp = rErr(e)
						} else {
							rec.resp = C("ROk")
							lastCas["m"] = nc
							atomic.AddInt64(&acks, 1)
						}
					} else {
						val := fmt.Sprintf("[b%d]", u)
						rec.op = C("KWriteCas", N(0), N(cs), Some(S(val)), B(true), B(false), B(false))
						rec.inv = time.Since(start).Nanoseconds()
						co, e := col.WriteCas("u", 0, cs, []byte(val), sgbucket.Raw)
						rec.ret = time.Since(start).Nanoseconds()
						rec.resp = casResp(co, e)
						if e == nil {
							atomic.AddInt64(&acks, 1)
						}
					}
					rmu.Lock()
					recs = append(recs, rd, rec)
					rmu.Unlock()
					continue
				}
				x := r.Intn(100)
				switch {
				case x < 14: // counter: Incr
					rec.key = "c"
					deflt := uint64(u) * 1000000
					rec.op = C("KIncr", N(1), N(deflt), N(0))
					rec.inv = time.Since(start).Nanoseconds()
					n, e := col.Incr("c", 1, deflt, 0)
					rec.ret = time.Since(start).Nanoseconds()
					if e != nil {
						rec.resp = rErr(e)
					} else {
						rec.resp = C("RNum", N(n))
					}
				case x < 22: // SetWithMeta on the CAS this goroutine last read, with a CAS of its own choosing
					rec.key = "m"
					cs := lastCas["m"]
					nc := uint64(1)<<50 + uint64(u)
					v := fmt.Sprintf(`{"w":%d}`, u)
					rec.op = C("KSetWithMeta", N(cs), N(nc), N(0), C("XNull"), Some(S(v)), B(true))
					rec.inv = time.Since(start).Nanoseconds()
					e := col.SetWithMeta(ctxBg, "m", cs, nc, 0, nil, []byte(v), sgbucket.FeedDataTypeJSON)
					rec.ret = time.Since(start).Nanoseconds()
					if e != nil {
						rec.resp = rErr(e)
					} else {
						rec.resp = C("ROk")
						lastCas["m"] = nc
						atomic.AddInt64(&acks, 1)
					}
				case x < 40: // reads
					rec.key = pick(r, []string{"c", "u", "u", "x", "m"})
					if rec.key == "x" {
						rec.op = C("KGetWithXattrs", strsTerm([]string{"_sync"}))
						rec.inv = time.Since(start).Nanoseconds()
						body, xs, cs, e := col.GetWithXattrs(ctxBg, "x", []string{"_sync"})
						rec.ret = time.Since(start).Nanoseconds()
						if e != nil {
							rec.resp = rErr(e)
						} else {
							rec.resp = C("RDoc", optBytes(body), xattrPairs(xs), N(cs))
							lastCas["x"] = cs
						}
					} else {
						rec.op = C("KGetRaw")
						rec.inv = time.Since(start).Nanoseconds()
						v, cs, e := col.GetRaw(rec.key)
						rec.ret = time.Since(start).Nanoseconds()
						if e != nil {
							rec.resp = rErr(e)
						} else {
							rec.resp = C("RVal", S(string(v)), N(cs))
							lastCas[rec.key] = cs
						}
					}
				case x < 50: // Remove with the CAS this goroutine last read
					rec.key = pick(r, []string{"c", "u"})
					cs := lastCas[rec.key]
					if cs == 0 {
						cs = 4242
					}
					rec.op = C("KRemove", N(cs))
					rec.inv = time.Since(start).Nanoseconds()
					co, e := col.Remove(rec.key, cs)
					rec.ret = time.Since(start).Nanoseconds()
					rec.resp = casResp(co, e)
				case x < 68: // Update: append a marker
					rec.key = "u"
					m := fmt.Sprintf("<%d>", u)
					rec.op = C("KUpdate", N(0), C("UAppend", S(m), None()))
					rec.inv = time.Since(start).Nanoseconds()
					co, e := col.Update("u", 0, func(cur []byte) ([]byte, *uint32, bool, error) {
						return append(append([]byte{}, cur...), []byte(m)...), nil, false, nil
					})
					rec.ret = time.Since(start).Nanoseconds()
					rec.resp = casResp(co, e)
				case x < 76: // conditional raw write with the CAS this goroutine last read
					rec.key = "u"
					cs := lastCas["u"]
					v := fmt.Sprintf("[w%d]", u)
					rec.op = C("KWriteCas", N(0), N(cs), Some(S(v)), B(true), B(false), B(false))
					rec.inv = time.Since(start).Nanoseconds()
					co, e := col.WriteCas("u", 0, cs, []byte(v), sgbucket.Raw)
					rec.ret = time.Since(start).Nanoseconds()
					rec.resp = casResp(co, e)
				default: // WriteUpdateWithXattrs: body and xattr carry the same counter
					rec.key = "x"
					var lastDoc, lastX string
					var shown uint64
					rec.inv = time.Since(start).Nanoseconds()
					co, e := col.WriteUpdateWithXattrs(ctxBg, "x", []string{"_sync"}, 0, nil, nil,
						func(doc []byte, xattrs map[string][]byte, cas uint64) (sgbucket.UpdatedDoc, error) {
							n := 0
							var d struct {
								N int `json:"n"`
							}
							if json.Unmarshal(doc, &d) == nil {
								n = d.N
							}
							shown = cas
							lastDoc = `{"n":` + strconv.Itoa(n+1) + `}`
							lastX = `{"n":` + strconv.Itoa(n+1) + `,"g":` + strconv.Itoa(g) + `}`
							return sgbucket.UpdatedDoc{Doc: []byte(lastDoc), Xattrs: map[string][]byte{"_sync": []byte(lastX)}}, nil
						})
					rec.ret = time.Since(start).Nanoseconds()
					rec.op = C("KWriteUpdateWithXattrs", C("WUResult", C("mkWu", Some(S(lastDoc)), L(P(S("_sync"), Some(S(lastX)))), None(), B(false), None(), L(), B(false))), L())
					rec.resp = casResp(co, e)
					rec.shown = &shown
				}
				if rec.resp["c"] == "RCas" || (rec.resp["c"] == "RNum") {
					atomic.AddInt64(&acks, 1)
				}
				rmu.Lock()
				recs = append(recs, rec)
				rmu.Unlock()
			}
		}(g)
	}
	doneCh := make(chan struct{})
	go func() { wg.Wait(); close(doneCh) }()
	select {
	case <-doneCh:
	case <-time.After(60 * time.Second):
		c.Fatal = "blocked for 60s"
		return c, nil
	}
	if f := fatal.Load(); f != nil {
		c.Fatal = f.(string)
		return c, nil
	}
	// wait for the feed to deliver one event per acknowledged mutation
	deadline := time.Now().Add(3 * time.Second)
	for time.Now().Before(deadline) {
		emu.Lock()
		n := 0
		for _, l := range events {
			n += len(l)
		}
		emu.Unlock()
		if int64(n) >= atomic.LoadInt64(&acks) {
			break
		}
		time.Sleep(time.Millisecond)
	}
	time.Sleep(20 * time.Millisecond)
	var keys []any
	emu.Lock()
	for _, key := range []string{"c", "u", "x", "m"} {
		var ops, evs []any
		for _, rec := range recs {
			if rec.key != key {
				continue
			}
			shown := None()
			if rec.shown != nil {
				shown = Some(N(*rec.shown))
			}
			ops = append(ops, C("mkLop", N(uint64(rec.inv)), N(uint64(rec.ret)), rec.op, rec.resp, shown))
		}
		for _, ev := range events[key] {
			evs = append(evs, feventTerm(ev))
		}
		keys = append(keys, C("mkLkey", N(0), S(key), B(key != "m"), L(ops...), L(evs...)))
	}
	emu.Unlock()
	c.CoqInput = C("tt")
	c.CoqObs = L(keys...)
	c.Cells = []string{fmt.Sprintf("disk=%v|handles=%d|goroutines=%d", in.OnDisk, in.Handles, in.Goroutines)}
	return c, nil
}

func runLin(cfg runCfg, emit func(Case)) error {
	var inputs []linInput
	if cfg.replay != nil {
		for _, raw := range cfg.replay {
			var in linInput
			if err := json.Unmarshal(raw, &in); err != nil {
				return err
			}
			inputs = append(inputs, in)
		}
	} else {
		r := rand.New(rand.NewSource(cfg.seed))
		for i := 0; i < cfg.n; i++ {
			inputs = append(inputs, linInput{OnDisk: r.Intn(2) == 0, Handles: 1 + r.Intn(3), Goroutines: 2 + r.Intn(7), OpsEach: 15 + r.Intn(25), Seed: r.Int63n(1 << 40)})
		}
	}
	for _, in := range inputs {
		c, err := execLin(in, cfg.scratch)
		if err != nil {
			return err
		}
		emit(c)
	}
	return nil
}

var _ = errors.New
