package main

// Family regc: goroutines open (every mode), write through and close handles of ONE bucket that exists already,
// at the same time.  Every registry action is atomic under cluster.lock and every write under bucket.mutex; hook
// points inside those critical sections record the order in which the calls took effect.  That order is handed
// to the sequential model (coq/Registry.v) as a history; compared are the answer of every call, the final view of
// every handle, the registered names, the directories and the registry's reference count (RegTrace.regc_corr_ok).

import (
	"encoding/json"
	"errors"
	"fmt"
	"math/rand"
	"os"
	"path/filepath"
	"sort"
	"sync"
	"sync/atomic"
	"time"

	sgbucket "github.com/couchbase/sg-bucket"
	"github.com/couchbaselabs/rosmar"
)

func init() { register(&family{name: "regc", run: runRegc}) }

type regcOp struct {
	Kind string `json:"kind"` // open | close | write
	Slot int    `json:"slot"` // which of the worker's handles
	Mode string `json:"mode,omitempty"`
	K    string `json:"k,omitempty"`
	V    string `json:"v,omitempty"`
}

type regcInput struct {
	InMem    bool       `json:"in_mem"`
	KeepOpen bool       `json:"keep_open"` // the handle that created the bucket stays open while the workers run
	Workers  [][]regcOp `json:"workers"`
}

type regcDone struct {
	seq    int64
	worker int
	op     regcOp
	resp   Term
	handle *regHandle // open: the handle it returned
	target *regHandle // close / write: the handle it went through (nil: the slot was empty)
}

var regcSerial int64

func execRegc(in regcInput, scratch string) (Case, error) {
	c := Case{Input: in}
	id := atomic.AddInt64(&regcSerial, 1)
	dir, err := os.MkdirTemp(scratch, "regc_")
	if err != nil {
		return c, err
	}
	defer os.RemoveAll(dir)
	name := fmt.Sprintf("regc%d_%d", os.Getpid(), id)
	url := rosmar.InMemoryURL
	if !in.InMem {
		url = "rosmar://" + filepath.Join(dir, regUrls[0])
	}
	rosmar.VerifSetClock(nil)
	var seq int64
	var gmu sync.Mutex
	cur := map[int64]*int64{} // goroutine -> where the call it is making records the moment it takes effect
	rosmar.VerifSetHook(func(point string, args ...any) {
		switch point {
		case "registry.register", "registry.cached", "registry.unregister", "txn.committed":
			if point == "txn.committed" && (len(args) < 2 || args[1] != nil) {
				return
			}
			gmu.Lock()
			p := cur[goid()]
			gmu.Unlock()
			if p != nil && atomic.LoadInt64(p) == 0 {
				atomic.StoreInt64(p, atomic.AddInt64(&seq, 1))
			}
		case "expiry.fire":
			select {}
		}
	})
	defer parkLateTimers()
	modeOf := map[string]rosmar.OpenMode{"CreateOrOpen": rosmar.CreateOrOpen, "CreateNew": rosmar.CreateNew, "ReOpenExisting": rosmar.ReOpenExisting}
	urlTerm := ""
	if !in.InMem {
		urlTerm = regUrls[0]
	}

	// the bucket exists before the goroutines start
	first, err := rosmar.OpenBucket(url, name, rosmar.CreateNew)
	if err != nil {
		return c, err
	}
	firstH := &regHandle{b: first, c: first.DefaultDataStore()}
	var all []regcDone
	all = append(all, regcDone{seq: atomic.AddInt64(&seq, 1), worker: -1, op: regcOp{Kind: "open", Mode: "CreateNew"}, resp: nil, handle: firstH})
	if !in.KeepOpen {
		first.Close(ctxBg)
		all = append(all, regcDone{seq: atomic.AddInt64(&seq, 1), worker: -1, op: regcOp{Kind: "close"}, target: firstH})
	}

	var mu sync.Mutex
	var wg sync.WaitGroup
	start := make(chan struct{})
	var fatal atomic.Value
	for w, script := range in.Workers {
		wg.Add(1)
		go func(w int, script []regcOp) {
			defer wg.Done()
			defer func() {
				if r := recover(); r != nil {
					fatal.Store(fmt.Sprintf("panic in worker %d: %v", w, r))
				}
			}()
			g := goid()
			slots := map[int]*regHandle{}
			<-start
			for _, op := range script {
				var when int64
				gmu.Lock()
				cur[g] = &when
				gmu.Unlock()
				d := regcDone{worker: w, op: op}
				switch op.Kind {
				case "open":
					b, e := rosmar.OpenBucket(url, name, modeOf[op.Mode])
					if e != nil {
						d.resp = C("RRErr", C(regErr(e, op.Mode)))
					} else {
						h := &regHandle{b: b, c: b.DefaultDataStore()}
						slots[op.Slot] = h
						d.handle = h
					}
				case "close":
					if h := slots[op.Slot]; h != nil {
						h.b.Close(ctxBg)
						d.target = h
						d.resp = C("RROk")
					}
				case "write":
					if h := slots[op.Slot]; h != nil {
						d.target = h
						if h.c == nil {
							d.resp = C("RRErr", C("RENoHandle"))
						} else if e := h.c.SetRaw(op.K, 0, nil, []byte(op.V)); e != nil {
							d.resp = C("RRErr", C(regErr(e, "")))
						} else {
							d.resp = C("RROk")
						}
					}
				}
				gmu.Lock()
				cur[g] = nil
				gmu.Unlock()
				if when == 0 {
					// the call changed nothing (a refused open, a close of a closed handle, a write that was refused): it may
					// stand anywhere after the goroutine's previous call
					when = atomic.AddInt64(&seq, 1)
				}
				d.seq = when
				if d.handle != nil || d.target != nil || d.resp != nil {
					mu.Lock()
					all = append(all, d)
					mu.Unlock()
				}
			}
		}(w, script)
	}
	doneCh := make(chan struct{})
	go func() { wg.Wait(); close(doneCh) }()
	close(start)
	select {
	case <-doneCh:
	case <-time.After(20 * time.Second):
		c.Fatal = "the goroutines did not finish within 20s (a lock left held?)"
		return c, nil
	}
	rosmar.VerifSetHook(nil)
	if f := fatal.Load(); f != nil {
		c.Fatal = f.(string)
		return c, nil
	}
	// the order in which the calls took effect, as a sequential history
	sort.Slice(all, func(i, j int) bool { return all[i].seq < all[j].seq })
	idOf := map[*regHandle]int{}
	var handles []*regHandle
	var opTerms, respTerms []any
	cells := map[string]bool{}
	for _, d := range all {
		switch d.op.Kind {
		case "open":
			opTerms = append(opTerms, C("ROpen", B(in.InMem), S(urlTerm), S("nA"), C(d.op.Mode)))
			if d.handle != nil {
				idOf[d.handle] = len(handles)
				handles = append(handles, d.handle)
				respTerms = append(respTerms, C("RROpened", N(uint64(len(handles)-1))))
			} else {
				respTerms = append(respTerms, d.resp)
			}
			cells["open|"+d.op.Mode+"|"+fmt.Sprint(d.handle != nil)] = true
		case "close":
			hid, ok := idOf[d.target]
			if !ok {
				return c, fmt.Errorf("a close took effect before the open of its handle (hooks missing from /repo?)")
			}
			opTerms = append(opTerms, C("RClose", N(uint64(hid))))
			respTerms = append(respTerms, C("RROk"))
		case "write":
			hid, ok := idOf[d.target]
			if !ok {
				return c, fmt.Errorf("a write took effect before the open of its handle (hooks missing from /repo?)")
			}
			opTerms = append(opTerms, C("RWrite", N(uint64(hid)), S(d.op.K), S(d.op.V)))
			respTerms = append(respTerms, d.resp)
			cells["write|"+fmt.Sprint(d.resp["c"])] = true
		}
	}
	// final observation
	var views []any
	for _, h := range handles {
		var vals []any
		status := ""
		if h.c == nil {
			status = "VDbClosed"
		} else {
			for _, k := range regKeys {
				v, _, e := h.c.GetRaw(k)
				var me sgbucket.MissingError
				switch {
				case e == nil:
					vals = append(vals, Some(S(string(v))))
				case errors.As(e, &me):
					vals = append(vals, None())
				case errors.Is(e, rosmar.ErrBucketClosed):
					status = "VClosed"
				default:
					status = "VDbClosed"
				}
			}
		}
		if status != "" {
			views = append(views, C(status))
		} else {
			views = append(views, C("VData", L(vals...)))
		}
	}
	var names []string
	for _, n := range rosmar.GetBucketNames() {
		if n == name {
			names = append(names, "nA")
		}
	}
	var dirs []any
	for _, u := range regUrls {
		_, e := os.Stat(filepath.Join(dir, u))
		dirs = append(dirs, B(e == nil))
	}
	count, _ := rosmar.VerifBucketCount(name)
	c.CoqInput = C("mkRcase", strsTerm(regKeys), strsTerm(regUrls), L(opTerms...))
	c.CoqObs = C("mkRegcObs", L(respTerms...), C("mkRobs", C("RROk"), L(views...), strsTerm(names), L(dirs...)), N(uint64(count)))
	cells[fmt.Sprintf("workers=%d|mem=%v|keep=%v", len(in.Workers), in.InMem, in.KeepOpen)] = true
	for k := range cells {
		c.Cells = append(c.Cells, k)
	}
	// clean up: whatever is still registered or on disk goes
	if hb, e := rosmar.OpenBucket(url, name, rosmar.CreateOrOpen); e == nil {
		_ = hb.CloseAndDelete(ctxBg)
	}
	return c, nil
}

func genRegc(r *rand.Rand) regcInput {
	in := regcInput{InMem: r.Intn(2) == 0, KeepOpen: r.Intn(3) == 0}
	nw := 2 + r.Intn(4)
	for w := 0; w < nw; w++ {
		var script []regcOp
		open := map[int]bool{}
		n := 2 + r.Intn(7)
		for i := 0; i < n; i++ {
			slot := r.Intn(2)
			switch x := r.Intn(10); {
			case x < 4 || len(open) == 0:
				if open[slot] {
					// the handle in the slot is closed first: a slot holds one handle
					script = append(script, regcOp{Kind: "close", Slot: slot})
				}
				script = append(script, regcOp{Kind: "open", Slot: slot, Mode: pick(r, []string{"CreateOrOpen", "CreateOrOpen", "ReOpenExisting", "ReOpenExisting", "CreateNew"})})
				open[slot] = true // (a refused open leaves the slot as it was; the executor copes)
			case x < 7:
				script = append(script, regcOp{Kind: "write", Slot: slot, K: pick(r, regKeys), V: fmt.Sprintf("w%d_%d", w, i)})
			default:
				script = append(script, regcOp{Kind: "close", Slot: slot})
				if r.Intn(3) == 0 {
					script = append(script, regcOp{Kind: "close", Slot: slot}) // and again
				}
			}
		}
		in.Workers = append(in.Workers, script)
	}
	return in
}

func runRegc(cfg runCfg, emit func(Case)) error {
	if cfg.replay != nil {
		for _, raw := range cfg.replay {
			var in regcInput
			if err := json.Unmarshal(raw, &in); err != nil {
				return err
			}
			c, err := execRegc(in, cfg.scratch)
			if err != nil {
				return err
			}
			emit(c)
		}
		return nil
	}
	r := rand.New(rand.NewSource(cfg.seed))
	for i := 0; i < cfg.n; i++ {
		c, err := execRegc(genRegc(r), cfg.scratch)
		if err != nil {
			return err
		}
		emit(c)
	}
	return nil
}
